from dask_expr._indexing import LocSlice
from dask.dataframe import methods

class _F:
    _name = "src"
    def __init__(self, divs): self.divisions = divs; self.npartitions = len(divs) - 1; self.known_divisions = True

class _LS(LocSlice):
    _name = "loc"
    def __new__(cls, *a, **k): return object.__new__(cls)
    def __init__(self, frame, iindexer, cindexer=None):
        self.operands = [frame, iindexer, cindexer]

def _rows(d, key, v, p):
    t = d[key]
    if isinstance(t, tuple) and t and t[0] is methods.loc:
        _, src, sl, c = t
        if src[1] != p: return 0
        if sl.start is not None and v < sl.start: return 0
        if sl.stop is not None and v > sl.stop: return 0
        return 1
    if isinstance(t, tuple) and len(t) == 2 and t[0] == "src":
        return 1 if t[1] == p else 0
    raise AssertionError(t)

def loc_slice_truthful(d0:int,d1:int,d2:int,d3:int,lo:int,hi:int,v:int,p:int,has_lo:bool,has_hi:bool) -> bool:
    """
    pre: d0 < d1 < d2 <= d3
    pre: 0 <= p < 3
    pre: (not has_lo) or (not has_hi) or lo <= hi
    post: _
    """
    divs = (d0,d1,d2,d3)
    if not (divs[p] <= v and (v < divs[p+1] or (p == 2 and v <= divs[p+1]))): return True
    sl = slice(lo if has_lo else None, hi if has_hi else None)
    e = _LS(_F(divs), sl, None)
    try:
        layer = e._layer()
        out = tuple(e._divisions())
    except KeyError:
        return True
    n = len(out) - 1
    if sorted(k[1] for k in layer) != list(range(n)): return False
    want = (not has_lo or v >= lo) and (not has_hi or v <= hi)
    tot = 0
    for j in range(n):
        c = _rows(layer, ("loc", j), v, p)
        if c and not (out[j] <= v and (v < out[j+1] or (j == n-1 and v <= out[j+1]))): return False
        tot += c
    return tot == (1 if want else 0)
