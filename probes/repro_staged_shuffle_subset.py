import warnings; warnings.filterwarnings("ignore")
import pandas as pd, numpy as np, dask
import dask_expr as dx
pdf = pd.DataFrame({"a":np.arange(90)%17,"b":range(90)})
df = dx.from_pandas(pdf, npartitions=9)
def t(name, f):
    try:
        r = f(); print("==",name,"OK\n", r)
    except Exception as e:
        print("==",name,"RAISED", type(e).__name__, str(e)[:300])
s = df.shuffle("a", max_branch=3, shuffle_method="tasks")
full = s.optimize(fuse=False)
parts = dask.compute(*s.to_delayed())
print([len(p) for p in parts], sum(len(p) for p in parts))
for P in ([5],[0],[4],[0,1,2],[8,3]):
    def f():
        sel = s.partitions[P]
        got = dask.compute(*sel.to_delayed())
        ok = all(g.sort_values("b").reset_index(drop=True).equals(parts[p].sort_values("b").reset_index(drop=True)) for g,p in zip(got,P))
        return ok, [len(g) for g in got], [len(parts[p]) for p in P]
    t(f"partitions{P}", f)
t("plan", lambda: s.partitions[[5]].optimize(fuse=False).pprint())
for P in ([0,1,2,5],[8,7,6,5,4],[0,1,2,3,4,5,6,7]):
    def f():
        sel = s.partitions[P]
        got = dask.compute(*sel.to_delayed())
        ok = all(g.sort_values("b").reset_index(drop=True).equals(parts[p].sort_values("b").reset_index(drop=True)) for g,p in zip(got,P))
        return ok, [len(g) for g in got], [len(parts[p]) for p in P]
    t(f"partitions{P}", f)
