from types import SimpleNamespace
from typing import Tuple
from dask_expr._repartition import RepartitionDivisions
from dask.dataframe import methods

def _valid(d):
    n = len(d)
    if n < 2: return False
    for i in range(n-2):
        if not d[i] < d[i+1]: return False
    return d[-2] <= d[-1]

def _count(d, key, v, p, name):
    """multiplicity of tracked row (value v, source partition p) in graph value `key`"""
    t = d[key]
    if isinstance(t, tuple) and t and t[0] is methods.boundary_slice:
        _, src, lo, hi, right = t
        if src[1] != p: return 0
        if v < lo: return 0
        if v > hi: return 0
        if v == hi and not right: return 0
        return 1
    if isinstance(t, tuple) and t and t[0] is methods.concat:
        return sum(_count(d, k, v, p, name) for k in t[1])
    if isinstance(t, tuple) and len(t) == 2 and isinstance(t[0], str):
        return _count(d, t, v, p, name)
    raise AssertionError(t)

def check3(a0:int,a1:int,a2:int,b0:int,b1:int,b2:int,v:int,p:int,force:bool) -> bool:
    """
    pre: -4 <= a0 <= 4 and -4 <= a1 <= 4 and -4 <= a2 <= 4
    pre: -4 <= b0 <= 4 and -4 <= b1 <= 4 and -4 <= b2 <= 4
    pre: 0 <= p < 2
    post: _
    """
    a=(a0,a1,a2); b=(b0,b1,b2)
    if not (_valid(a) and _valid(b)): return True
    # row (v,p) consistent with a
    if not (a[p] <= v and (v < a[p+1] or (p == len(a)-2 and v <= a[p+1]))): return True
    self = SimpleNamespace(_name="rep-tok", frame=SimpleNamespace(divisions=a, _name="src"), new_divisions=b, force=force)
    try:
        d = RepartitionDivisions._layer(self)
    except ValueError:
        return True
    nout = len(b)-1
    tot = 0
    for j in range(nout):
        c = _count(d, ("rep-tok", j), v, p, "src")
        if c:
            if not (b[j] <= v and (v < b[j+1] or (j == nout-1 and v <= b[j+1]))):
                return False
        tot += c
    return tot == 1
