import warnings; warnings.filterwarnings("ignore")
import pandas as pd, numpy as np
import dask_expr as dx
pdf = pd.DataFrame({"a": range(10)}, index=range(10))
df = dx.from_pandas(pdf, npartitions=3)
for P in ([2,0],[0,0],[0,2],[1]):
    r = df.partitions[P]
    print(P, "logical", r.divisions, "optimized", r.optimize().divisions, "known", r.known_divisions)
# consequence: loc on reordered selection
r = df.partitions[[2,0]]
try:
    print("loc[1] on partitions[[2,0]]:", r.loc[1].compute().a.tolist(), "expected", pd.concat([pdf.iloc[7:],pdf.iloc[:4]]).loc[[1]].a.tolist())
except Exception as e:
    print("RAISED", type(e).__name__, str(e)[:200])
