import inspect, textwrap
import dask_expr._repartition as R
from p_repart import _valid, _count
from types import SimpleNamespace
src = textwrap.dedent(inspect.getsource(R.RepartitionDivisions._layer))
assert src.count("low, b[j], False)") == 2
src = src.replace("low, b[j], False)", "low, b[j], True)", 1)
ns = dict(R.__dict__)
exec(src, ns)
_layer_mut = ns["_layer"]

def check3m(a0:int,a1:int,a2:int,b0:int,b1:int,b2:int,v:int,p:int,force:bool) -> bool:
    """
    pre: 0 <= p < 2
    post: _
    """
    a=(a0,a1,a2); b=(b0,b1,b2)
    if not (_valid(a) and _valid(b)): return True
    if not (a[p] <= v and (v < a[p+1] or (p == len(a)-2 and v <= a[p+1]))): return True
    self = SimpleNamespace(_name="rep-tok", frame=SimpleNamespace(divisions=a, _name="src"), new_divisions=b, force=force)
    try:
        d = _layer_mut(self)
    except ValueError:
        return True
    nout = len(b)-1
    tot = 0
    for j in range(nout):
        c = _count(d, ("rep-tok", j), v, p, "src")
        if c:
            if not (b[j] <= v and (v < b[j+1] or (j == nout-1 and v <= b[j+1]))):
                return False
        tot += c
    return tot == 1
