import warnings; warnings.filterwarnings("ignore")
import pandas as pd, numpy as np, dask
from dask.core import istask
import dask_expr as dx
from collections import Counter
pdf = pd.DataFrame({"a":[1,2,3,4,5,6,7,8,9,10,11,12],"b":[1,1,2,2,3,3,1,1,2,2,3,3],"c":np.arange(12.0)})
pdf2 = pd.DataFrame({"b":[1,2,3,4],"d":[10,20,30,40]})
def mk(n=3, n2=2):
    return dx.from_pandas(pdf, npartitions=n), dx.from_pandas(pdf2, npartitions=n2)
Q = {
 "proj_filter_sum": lambda df, d2: df[df.a > 3][["a","c"]].c.sum(),
 "assign_filter": lambda df, d2: df.assign(e=df.a + df.b)[lambda x: x.e > 4][["e","c"]],
 "or_filter": lambda df, d2: df[((df.a>2)&(df.b==1))|((df.a>2)&(df.c<7))].a,
 "count_mean": lambda df, d2: df[["a","c"]].mean(),
 "min_max": lambda df, d2: df.c.max() - df.a.min(),
 "merge_inner": lambda df, d2: df.merge(d2, on="b")[["a","d"]],
 "merge_left_filter": lambda df, d2: (lambda m: m[m.a > 3])(df.merge(d2, on="b", how="left")),
 "groupby_sum": lambda df, d2: df.groupby("b").c.sum(),
 "groupby_agg": lambda df, d2: df.groupby("b").agg({"a":"sum","c":"max"}),
 "groupby_split_out": lambda df, d2: df.groupby("b").c.sum(split_out=2),
 "head": lambda df, d2: (df+1).head(3, compute=False),
 "tail": lambda df, d2: df[["a"]].tail(2, compute=False),
 "partitions": lambda df, d2: (df.a+1).partitions[1],
 "concat": lambda df, d2: dx.concat([df[["a","b"]], df[["b","a"]]]).b,
 "drop_dup": lambda df, d2: df.b.drop_duplicates(),
 "unique": lambda df, d2: df.b.unique(),
 "value_counts": lambda df, d2: df.b.value_counts(),
 "nunique": lambda df, d2: df.b.nunique(),
 "sort_values": lambda df, d2: df.sort_values("c")[["c"]],
 "set_index_div": lambda df, d2: df.set_index("a", divisions=[1,5,9,12]).c,
 "shuffle": lambda df, d2: df.shuffle("b")[["a"]],
 "repart": lambda df, d2: df.repartition(npartitions=2).a,
 "repart_div": lambda df, d2: df.repartition(divisions=[0,3,7,11]).a,
 "cumsum": lambda df, d2: df.a.cumsum(),
 "shift": lambda df, d2: df.a.shift(1),
 "fillna_isna": lambda df, d2: df.c.fillna(0).isna().sum(),
 "reset_index": lambda df, d2: df.reset_index()[["index","a"]],
 "index_filter": lambda df, d2: df[df.index > 3].a,
 "len": lambda df, d2: dx.new_collection(dx._reductions.Len(df[df.a>2].expr)) if False else df[df.a>2].index.size,
 "nlargest": lambda df, d2: df.nlargest(2, "c"),
 "rename": lambda df, d2: df.rename(columns={"a":"A"})[["A"]],
 "isin": lambda df, d2: df[df.b.isin([1,2])].c,
 "loc_slice": lambda df, d2: df.loc[2:7, ["a"]],
 "align_add": lambda df, d2: df.a + df.repartition(npartitions=2).c,
}
def fn_name(f):
    import functools
    if isinstance(f, functools.partial): return "partial(%s)"%fn_name(f.func)
    mod = getattr(f, "__module__", "") or ""
    q = getattr(f, "__qualname__", None) or repr(f)
    return f"{mod}.{q}"
def walk(t, acc):
    if istask(t):
        acc[fn_name(t[0])] += 1
        for x in t[1:]: walk(x, acc)
    elif isinstance(t, (list,)):
        for x in t: walk(x, acc)
    elif isinstance(t, dict):
        for x in t.values(): walk(x, acc)
tot = Counter()
for name, q in Q.items():
    df, d2 = mk()
    try:
        c = q(df, d2)
        for stage, fuse in (("lowered",None),("opt",False),("fused",True)):
            if stage=="lowered": e = c.expr.lower_completely()
            else: e = c.optimize(fuse=fuse).expr
            g = e.__dask_graph__()
            acc = Counter()
            for k,v in g.items(): walk(v, acc)
            tot.update(acc.keys())
        print(name, "ok", len(g))
    except Exception as ex:
        print(name, "ERR", type(ex).__name__, str(ex)[:200])
print()
for k,v in sorted(tot.items()): print(v, k)
