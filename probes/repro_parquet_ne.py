import warnings; warnings.filterwarnings("ignore")
import pandas as pd, numpy as np, dask, shutil, os
import dask_expr as dx
pdf = pd.DataFrame({"a":[1.0,2.0,np.nan,4.0,5.0,6.0],"b":range(6),"c":range(10,16)}, index=pd.Index(range(6), name="idx"))
def t(name, f):
    try:
        r = f(); print("==",name,"OK\n", r)
    except Exception as e:
        import traceback
        print("==",name,"RAISED", type(e).__name__, str(e)[:400])
shutil.rmtree("/tmp/pq/d1", ignore_errors=True)
df = dx.from_pandas(pdf, npartitions=3)
t("to_parquet", lambda: df.to_parquet("/tmp/pq/d1"))
print(os.listdir("/tmp/pq/d1"))
for fs in [None, "arrow"]:
    kw = {} if fs is None else {"filesystem": fs}
    t(f"read {fs}", lambda: dx.read_parquet("/tmp/pq/d1", **kw).compute())
    t(f"read ne {fs}", lambda: (lambda r: r[r.a != 2.0])(dx.read_parquet("/tmp/pq/d1", **kw)).compute())
    t(f"read ne plan {fs}", lambda: (lambda r: r[r.a != 2.0])(dx.read_parquet("/tmp/pq/d1", **kw)).optimize().pprint())
    t(f"read cols divisions {fs}", lambda: (dx.read_parquet("/tmp/pq/d1", calculate_divisions=True, **kw)[["b"]]).optimize().divisions)
    t(f"read divisions {fs}", lambda: (dx.read_parquet("/tmp/pq/d1", calculate_divisions=True, **kw)).divisions)
    t(f"len {fs}", lambda: len(dx.read_parquet("/tmp/pq/d1", **kw)))
