import warnings; warnings.filterwarnings("ignore")
import pandas as pd, numpy as np, dask
import dask_expr as dx
pdf = pd.DataFrame({"a":[1,2,3,4,5,6,7,8,9,10],"b":range(10),"c":range(10,20)})
pdf2 = pd.DataFrame({"a":[1,2,3,4,5,6,7,8,9,10],"b":range(20,30)})
df = dx.from_pandas(pdf, npartitions=2); df2 = dx.from_pandas(pdf2, npartitions=2)
def t(name, f):
    try:
        r = f(); print("==",name,"OK\n", r)
    except Exception as e:
        print("==",name,"RAISED", type(e).__name__, str(e)[:300])
t("merge suffix proj", lambda: df.merge(df2, on='a')[['b_x','b_y']].compute().head(3))
t("merge suffix proj unopt", lambda: pdf.merge(pdf2, on='a')[['b_x','b_y']].head(3))
s = df.a
t("(s+s.sum()).head()", lambda: (s + s.sum()).head())
t("from_array head", lambda: dx.from_array(np.arange(10), chunksize=3).head())
t("from_array compute", lambda: dx.from_array(np.arange(10), chunksize=3).compute().tolist())
t("from_array partitions[1]", lambda: dx.from_array(np.arange(10), chunksize=3).partitions[1].compute().tolist())
df5 = dx.from_pandas(pdf, npartitions=2)
t("head(7,npartitions=2) elemwise", lambda: len((df5+1).head(7, npartitions=2)))
t("head(7,npartitions=2) plain", lambda: len((df5).head(7, npartitions=2)))
