"""Feasibility probe: symbolic plan execution (tiny)."""
import warnings; warnings.filterwarnings("ignore")
import operator, time, functools
from collections import OrderedDict
import numpy as np, pandas as pd, z3
import dask
from dask.core import istask
from dask.utils import apply, methodcaller
from dask.dataframe.core import _concat
from dask.dataframe import methods
import dask_expr as dx
from dask_expr._expr import Fused

TAGBASE = 100000

class Col:
    def __init__(self, vals, nulls): self.vals, self.nulls = list(vals), list(nulls)
    def take(self, idx): return Col([self.vals[i] for i in idx], [self.nulls[i] for i in idx])

class SScalar:
    def __init__(self, val, null): self.val, self.null = val, null

class SBase:
    pass

class SSeries(SBase):
    dtype = "sym"
    def __init__(self, name, col, valid, index):
        self.name, self.col, self.valid, self.index = name, col, list(valid), list(index)
    def __len__(self): raise TypeError("symbolic length")
    # duck typing for dask
    def groupby(self): raise NotImplementedError
    def head(self): raise NotImplementedError
    def mean(self): raise NotImplementedError
    def _cmp(self, other, op):
        assert isinstance(other, (int, float))
        vals = [z3.If(n, z3.BoolVal(False), op(v, other)) for v, n in zip(self.col.vals, self.col.nulls)]
        return SSeries(self.name, Col(vals, [z3.BoolVal(False)] * len(vals)), self.valid, self.index)
    def __gt__(self, o): return self._cmp(o, operator.gt)
    def __lt__(self, o): return self._cmp(o, operator.lt)
    def __and__(self, o):
        return SSeries(self.name, Col([z3.And(a, b) for a, b in zip(self.col.vals, o.col.vals)], self.col.nulls), self.valid, self.index)
    def __or__(self, o):
        return SSeries(self.name, Col([z3.Or(a, b) for a, b in zip(self.col.vals, o.col.vals)], self.col.nulls), self.valid, self.index)
    def sum(self, skipna=True, numeric_only=False, axis=0):
        tot = z3.IntVal(0)
        for v, n, ok in zip(self.col.vals, self.col.nulls, self.valid):
            tot = tot + z3.If(z3.And(ok, z3.Not(n)), v, 0)
        return SScalar(tot, z3.BoolVal(False))
    def __getitem__(self, key):
        if isinstance(key, SSeries):
            return SSeries(self.name, self.col, [z3.And(a, b) for a, b in zip(self.valid, key.col.vals)], self.index)
        raise NotImplementedError(key)

class SFrame(SBase):
    def __init__(self, cols, valid, index):
        self.cols, self.valid, self.index = OrderedDict(cols), list(valid), list(index)
    @property
    def columns(self): return list(self.cols)
    @property
    def dtypes(self): return None
    def groupby(self): raise NotImplementedError
    def head(self): raise NotImplementedError
    def mean(self): raise NotImplementedError
    def merge(self): raise NotImplementedError
    def __getitem__(self, key):
        if isinstance(key, SSeries):
            return SFrame(self.cols, [z3.And(a, b) for a, b in zip(self.valid, key.col.vals)], self.index)
        if isinstance(key, list):
            return SFrame([(k, self.cols[k]) for k in key], self.valid, self.index)
        return SSeries(key, self.cols[key], self.valid, self.index)

def from_tagged(pobj, env):
    """pandas object of tags -> symbolic object"""
    def col(values, label):
        vals, nulls = [], []
        for t in values:
            vals.append(env.var(int(t))); nulls.append(env.null(int(t)))
        return Col(vals, nulls)
    idx = [z3.IntVal(int(i)) for i in pobj.index]
    valid = [z3.BoolVal(True)] * len(pobj)
    if isinstance(pobj, pd.DataFrame):
        return SFrame([(c, col(pobj[c].values, c)) for c in pobj.columns], valid, idx)
    return SSeries(pobj.name, col(pobj.values, pobj.name), valid, idx)

class Env:
    def __init__(self): self.vars = {}
    def var(self, tag): return self.vars.setdefault(("v", tag), z3.Int(f"v{tag}"))
    def null(self, tag): return self.vars.setdefault(("n", tag), z3.Bool(f"n{tag}"))

def model_concat(args, ignore_index=False):
    if all(isinstance(a, SScalar) for a in args):
        return SSeries(None, Col([a.val for a in args], [a.null for a in args]), [z3.BoolVal(True)] * len(args), [z3.IntVal(i) for i in range(len(args))])
    raise NotImplementedError

MODELS = {_concat: model_concat}

def _has_sym(x):
    if isinstance(x, (SBase, SScalar)): return True
    if isinstance(x, (list, tuple)): return any(_has_sym(i) for i in x)
    if isinstance(x, dict): return any(_has_sym(i) for i in x.values())
    return False

def patch_modules():
    import sys
    for name, mod in list(sys.modules.items()):
        if not name.startswith("dask_expr"): continue
        for attr, val in list(vars(mod).items()):
            try:
                if val in MODELS:
                    real, model = val, MODELS[val]
                    def wrapper(*a, __real=real, __model=model, **kw):
                        if _has_sym(a) or _has_sym(kw): return __model(*a, **kw)
                        return __real(*a, **kw)
                    setattr(mod, attr, wrapper)
            except TypeError:
                pass
patch_modules()

class Interp:
    def __init__(self, dsk, env): self.dsk, self.env, self.memo = dsk, env, {}
    def get(self, key):
        if key not in self.memo:
            self.memo[key] = self.ev(self.dsk[key])
        return self.memo[key]
    def iskey(self, x):
        try: return x in self.dsk
        except TypeError: return False
    def ev(self, t):
        if istask(t):
            f, args = t[0], t[1:]
            if f is Fused._execute_task:
                graph, name, *deps = args
                deps = [self.ev(d) for d in deps]
                sub = dict(graph)
                for i, d in enumerate(deps): sub["_" + str(i)] = ("__lit__", d)
                return Interp(sub, self.env).get(name)
            if f == "__lit__": return args[0]
            if f is apply:
                func = args[0]; a = self.ev(args[1]) if len(args) > 1 else []
                kw = self.ev(args[2]) if len(args) > 2 else {}
                return self.call(func, a, kw)
            return self.call(f, [self.ev(a) for a in args], {})
        if isinstance(t, list): return [self.ev(x) for x in t]
        if isinstance(t, dict): return {k: self.ev(v) for k, v in t.items()}
        if self.iskey(t): return self.get(t)
        if isinstance(t, (pd.DataFrame, pd.Series)): return from_tagged(t, self.env)
        return t
    def call(self, f, a, kw):
        if f in MODELS: return MODELS[f](*a, **kw)
        if isinstance(f, methodcaller): return getattr(a[0], f.method)(*a[1:], **kw)
        return f(*a, **kw)   # operator.*, real dask-expr python functions

def istask(t): return isinstance(t, tuple) and t and (callable(t[0]) or t[0] == "__lit__")

def run(expr, env):
    g = expr.__dask_graph__()
    it = Interp(g, env)
    return [it.get(k) for k in expr.__dask_keys__()]

def skeleton(nrows, cols):
    return pd.DataFrame({c: [TAGBASE * (j + 1) + i for i in range(nrows)] for j, c in enumerate(cols)})

if __name__ == "__main__":
    with dask.config.set({"dataframe.convert-string": False}):
        for nparts in (1, 2, 3):
            pdf = skeleton(6, ["a", "b", "c"])
            df = dx.from_pandas(pdf, npartitions=nparts, sort=False)
            q = df[((df.a > 3) & (df.b < 2)) | ((df.a > 3) & (df.c > 7))][["a", "c"]].c.sum()
            env = Env()
            t0 = time.time()
            ref = run(q.expr.lower_completely(), env)[0]
            opt = run(q.optimize(fuse=True).expr, env)[0]
            s = z3.Solver()
            s.add(z3.Not(z3.And(ref.val == opt.val, ref.null == opt.null)))
            r = s.check()
            print(nparts, r, round(time.time() - t0, 3), "s")
            q.optimize().pprint()
