from dask_expr._reductions import TreeReduce
from dask.utils import apply

class _F:
    def __init__(self, n): self.n = n; self._name = "chunk"
    def __dask_keys__(self): return [("chunk", i) for i in range(self.n)]

class _S:
    _name = "tree"
    combine = staticmethod(lambda xs: xs)
    aggregate = staticmethod(lambda xs: xs)
    combine_kwargs = None
    aggregate_kwargs = {}
    def __init__(self, n, se): self.frame = _F(n); self.split_every = se

def _leaves(d, t, n_src):
    """multiset of source partitions consumed by task t, as list"""
    if isinstance(t, tuple) and t and t[0] is apply:
        return _leaves(d, t[2], n_src)
    if isinstance(t, tuple) and t and callable(t[0]):
        out = []
        for a in t[1:]: out += _leaves(d, a, n_src)
        return out
    if isinstance(t, list):
        out = []
        for a in t: out += _leaves(d, a, n_src)
        return out
    if isinstance(t, tuple) and t and t[0] == "chunk": return [t[1]]
    if isinstance(t, tuple) and t in d: return _leaves(d, d[t], n_src)
    if isinstance(t, tuple) and t and t[0] == "tree": raise KeyError(t)   # dangling reference
    return []

def tree_consumes_each_once(n:int, se:int) -> bool:
    """
    pre: 1 <= n <= 9
    pre: 0 <= se <= 4 and se != 1
    post: _
    """
    s = _S(n, False if se == 0 else se)
    d = TreeReduce._layer(s)
    return _leaves(d, d[("tree", 0)], n) == list(range(n))
