from dask_expr.io.parquet import _divisions_from_statistics

def _mk(mn, mx):
    return {"columns": [{"path_in_schema": "idx", "statistics": {"min": mn, "max": mx}}]}

def stats_divisions_truthful(a0:int,a1:int,b0:int,b1:int,c0:int,c1:int) -> bool:
    """
    pre: a0 <= a1 and b0 <= b1 and c0 <= c1
    post: _
    """
    files = [(a0,a1),(b0,b1),(c0,c1)]
    divs, order = _divisions_from_statistics([_mk(*f) for f in files], "idx")
    if divs[0] is None: return True
    order = [int(i) for i in order]
    # partition k of the result is file order[k]; all its values lie in [min,max] of that file
    for k, fi in enumerate(order):
        mn, mx = files[fi]
        last = k == len(order) - 1
        if not (divs[k] <= mn): return False
        if last:
            if not (mx <= divs[k+1]): return False
        else:
            if not (mx < divs[k+1]): return False
    return True
