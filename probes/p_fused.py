from typing import List
from dask_expr.io.io import FusedIO

class _E:
    def __init__(self, divs, parts, factor):
        self._d, self._partitions, self._fusion_compression_factor = divs, parts, factor
    def _divisions(self): return self._d

class _S:
    def __init__(self, e): self._e = e
    def operand(self, k): return self._e
    _fusion_buckets = property(FusedIO._fusion_buckets.func)
    _divisions = FusedIO._divisions

def fused_divisions_truthful(d0:int, d1:int, d2:int, d3:int, d4:int, nsel:int, factor_num:int) -> bool:
    """
    pre: d0 < d1 < d2 < d3 <= d4
    pre: 1 <= nsel <= 4
    pre: 1 <= factor_num <= 4
    post: _
    """
    full = (d0,d1,d2,d3,d4)
    parts = list(range(4))[:nsel]          # leading partitions selected (contiguous)
    e = _E(full, parts, factor_num / 4)
    s = _S(e)
    out = s._divisions()
    buckets = s._fusion_buckets
    if len(out) != len(buckets) + 1: return False
    # every bucket b covers source partitions b[0]..b[-1]: lower = full[b[0]], upper = full[b[-1]+1]
    for k, b in enumerate(buckets):
        if out[k] != full[b[0]]: return False
    return out[-1] == full[buckets[-1][-1] + 1]
