"""Probe for C12: real TaskShuffle graphs, symbolic rows, z3 decides permutation/co-location."""
import warnings; warnings.filterwarnings("ignore")
import operator, time, itertools, sys
import pandas as pd, numpy as np, z3, dask
from dask.core import istask
from dask.dataframe.core import _concat
from dask.dataframe.shuffle import shuffle_group, shuffle_group_2, shuffle_group_get
import dask_expr as dx
from dask_expr._shuffle import SimpleShuffle, TaskShuffle

class Rows:
    """symbolic multiset: list of (cond, slot_id); slot payload lives outside (p_s = target partition of slot s)"""
    def __init__(self, items): self.items = items
class Groups:
    def __init__(self, d, keys): self.d, self.keys = d, keys   # key -> Rows ; keys=None means all ints defined lazily

def run_graph(dsk, outkeys, src_name, n_in, P, npart_val):
    memo = {}
    def ev(t):
        if isinstance(t, tuple) and t and callable(t[0]):
            f, a = t[0], t[1:]
            if f is _concat:
                parts = [ev(x) for x in a[0]]
                return Rows([it for p in parts for it in p.items])
            if f is operator.getitem:
                g = ev(a[0]); k = a[1]
                if g.keys is not None and k not in g.keys: raise KeyError(k)
                return g.d(k)
            if f in (SimpleShuffle._shuffle_group, TaskShuffle._shuffle_group):
                df = ev(a[0]); _filter = a[1]; col, stage, k, npartitions, ign, nfinal = a[2:]
                assert col == "_partitions"
                def pick(idx, df=df, stage=stage, k=k, npartitions=npartitions):
                    return Rows([(z3.And(c, ((P[s] % npartitions) / (k ** stage)) % k == idx), s) for c, s in df.items])
                return Groups(pick, None if _filter is None else set(_filter) & set(range(k)))
            if f is shuffle_group_2:
                df = ev(a[0])
                return ("g2", df)
            if f is shuffle_group_get:
                (_, df), i = ev(a[0]), a[1]
                return Rows([(z3.And(c, P[s] == i), s) for c, s in df.items])
            raise NotImplementedError(f)
        if isinstance(t, tuple) and t in dsk: return get(t)
        if isinstance(t, tuple) and len(t) == 2 and t[0] == src_name:
            return Rows([(z3.BoolVal(True), t[1])])
        if isinstance(t, pd.DataFrame): return Rows([])
        raise NotImplementedError(t)
    def get(k):
        if k not in memo: memo[k] = ev(dsk[k])
        return memo[k]
    return [get(k) for k in outkeys]

def check(n_in, n_out, mb, subset=None):
    pdf = pd.DataFrame({"a": np.arange(n_in), "b": np.arange(n_in)})
    df = dx.from_pandas(pdf, npartitions=n_in, sort=False)
    s = df.shuffle("a", npartitions=n_out, max_branch=mb, shuffle_method="tasks")
    if subset is not None: s = s.partitions[subset]
    e = s.optimize(fuse=False).expr
    ts = [x for x in e.walk() if isinstance(x, SimpleShuffle)]
    assert len(ts) == 1, e.pprint()
    ts = ts[0]
    layer = ts._layer()
    nin = ts.frame.npartitions
    P = [z3.Int(f"p{s}") for s in range(nin)]
    sel = list(ts._partitions)
    outs = run_graph(layer, [(ts._name, j) for j in range(len(sel))], ts.frame._name, nin, P, n_out)
    sol = z3.Solver()
    for p in P: sol.add(p >= 0, p < n_out)
    bad = []
    for s in range(nin):
        for j, part in enumerate(sel):
            mult = z3.Sum([z3.If(c, 1, 0) for c, sid in outs[j].items if sid == s] + [z3.IntVal(0)])
            bad.append(mult != z3.If(P[s] == part, 1, 0))
    sol.add(z3.Or(bad))
    r = sol.check()
    return str(r), type(ts).__name__, nin, (sol.model() if str(r) == "sat" else None)

if __name__ == "__main__":
    t0 = time.time(); n = 0; res = {}
    for n_in in range(1, 10):
        for n_out in range(1, 10):
            for mb in (2, 3):
                try:
                    r = check(n_in, n_out, mb)
                except Exception as ex:
                    r = ("EXC " + type(ex).__name__ + " " + str(ex)[:60],)
                n += 1
                if r[0] != "unsat": print((n_in, n_out, mb), r[:3])
    print("full-shuffle configs", n, "time", round(time.time() - t0, 1))
    for subset in ([8, 7, 6, 5, 4], [0, 1, 2, 5], [1, 2, 5, 7]):
        try:
            print("subset", subset, check(9, 9, 3, subset)[:3])
        except Exception as ex:
            print("subset", subset, "EXC", type(ex).__name__, ex)
