import warnings; warnings.filterwarnings("ignore")
import pandas as pd, numpy as np
import dask_expr as dx
pdf = pd.DataFrame({"a": range(10)}, index=range(10))
df = dx.from_pandas(pdf, npartitions=3)
print(df.divisions)
print("pandas:", pdf.loc[8:2].a.tolist())
r = df.loc[8:2]
print("dask divisions", r.divisions, "npartitions", r.npartitions)
try:
    print("dask:", r.compute().a.tolist())
except Exception as e:
    print("RAISED", type(e).__name__, e)
