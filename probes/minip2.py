"""Feasibility probe 2: hash join + filter push-down through merge, generic multiset equivalence."""
import warnings; warnings.filterwarnings("ignore")
import operator, time, sys
from collections import OrderedDict
import numpy as np, pandas as pd, z3
import dask
from dask.utils import apply, methodcaller
from dask.dataframe.core import _concat
from dask.dataframe.shuffle import shuffle_group, partitioning_index
from dask.dataframe.multi import merge_chunk
import dask_expr as dx
from dask_expr._expr import Fused

T, F = z3.BoolVal(True), z3.BoolVal(False)
H = z3.Function("H", z3.IntSort(), z3.BoolSort(), z3.IntSort())

class Col:
    def __init__(self, vals, nulls): self.vals, self.nulls = list(vals), list(nulls)

class SIndex:
    name = None
    def __init__(self, vals): self.vals = list(vals)

class SBase: pass

class SSeries(SBase):
    dtype = "sym"; ndim = 1
    def __init__(self, name, col, valid, index): self.name, self.col, self.valid, self.index = name, col, list(valid), index
    def groupby(self): pass
    def head(self): pass
    def mean(self): pass
    def _cmp(self, other, op):
        vals = [z3.If(n, F, op(v, other)) for v, n in zip(self.col.vals, self.col.nulls)]
        return SSeries(self.name, Col(vals, [F] * len(vals)), self.valid, self.index)
    def __gt__(self, o): return self._cmp(o, operator.gt)
    def __lt__(self, o): return self._cmp(o, operator.lt)
    def __and__(self, o):
        return SSeries(self.name, Col([z3.And(a, b) for a, b in zip(self.col.vals, o.col.vals)], self.col.nulls), self.valid, self.index)

class SFrame(SBase):
    ndim = 2
    def __init__(self, cols, valid, index): self.cols, self.valid, self.index = OrderedDict(cols), list(valid), index
    @property
    def columns(self): return list(self.cols)
    dtypes = None
    def groupby(self): pass
    def head(self): pass
    def mean(self): pass
    def __getitem__(self, key):
        if isinstance(key, SSeries):
            return SFrame(self.cols, [z3.And(a, b) for a, b in zip(self.valid, key.col.vals)], self.index)
        if isinstance(key, list):
            return SFrame([(k, self.cols[k]) for k in key], self.valid, self.index)
        return SSeries(key, self.cols[key], self.valid, self.index)
    def assign(self, **kw):
        cols = OrderedDict(self.cols)
        for k, v in kw.items(): cols[k] = v.col
        return SFrame(cols, self.valid, self.index)
    def mask(self, conds):
        return SFrame(self.cols, [z3.And(a, c) for a, c in zip(self.valid, conds)], self.index)
    def merge(self, rhs, how="inner", left_on=None, right_on=None, left_index=False, right_index=False, suffixes=("_x", "_y"), indicator=False, on=None):
        assert how == "inner" and not left_index and not right_index
        lk = left_on if isinstance(left_on, list) else [left_on]; rk = right_on if isinstance(right_on, list) else [right_on]
        assert lk == rk
        names = [c for c in self.columns] + [c for c in rhs.columns if c not in rk]
        assert len(set(names)) == len(names), "suffix handling not in probe"
        cols = OrderedDict((c, Col([], [])) for c in names); valid = []
        for i in range(len(self.valid)):
            for j in range(len(rhs.valid)):
                eq = T
                for k in lk:
                    a, b = self.cols[k], rhs.cols[k]
                    eq = z3.And(eq, z3.Or(z3.And(a.nulls[i], b.nulls[j]), z3.And(z3.Not(a.nulls[i]), z3.Not(b.nulls[j]), a.vals[i] == b.vals[j])))
                valid.append(z3.And(self.valid[i], rhs.valid[j], eq))
                for c in self.columns: cols[c].vals.append(self.cols[c].vals[i]); cols[c].nulls.append(self.cols[c].nulls[i])
                for c in rhs.columns:
                    if c not in rk: cols[c].vals.append(rhs.cols[c].vals[j]); cols[c].nulls.append(rhs.cols[c].nulls[j])
        return SFrame(cols, valid, None)

class Env:
    def __init__(self): self.vars = {}
    def var(self, tag): return self.vars.setdefault(("v", tag), z3.Int(f"v{tag}"))
    def null(self, tag): return self.vars.setdefault(("n", tag), z3.Bool(f"n{tag}"))

def from_tagged(p, env):
    def col(values): return Col([env.var(int(t)) for t in values], [env.null(int(t)) for t in values])
    idx = SIndex([z3.IntVal(int(i)) for i in p.index]); valid = [T] * len(p)
    if isinstance(p, pd.DataFrame): return SFrame([(c, col(p[c].values)) for c in p.columns], valid, idx)
    return SSeries(p.name, col(p.values), valid, idx)

def m_concat(args, ignore_index=False):
    cols = OrderedDict((c, Col([], [])) for c in args[0].columns); valid = []
    for a in args:
        assert a.columns == args[0].columns
        valid += a.valid
        for c in cols: cols[c].vals += a.cols[c].vals; cols[c].nulls += a.cols[c].nulls
    return SFrame(cols, valid, None)

def m_partitioning_index(df, npartitions, cast_dtype=None):
    assert len(df.columns) == 1
    c = df.cols[df.columns[0]]
    return SSeries(None, Col([H(v, n) % npartitions for v, n in zip(c.vals, c.nulls)], [F] * len(c.vals)), df.valid, df.index)

def m_shuffle_group(df, cols, stage, k, npartitions, ignore_index, nfinal):
    assert cols == "_partitions"
    p = df.cols["_partitions"].vals
    return {g: df.mask([((x % npartitions) / (k ** stage)) % k == g for x in p]) for g in range(k)}

def m_merge_chunk(lhs, rhs, result_meta=None, **kw): return lhs.merge(rhs, **kw)

MODELS = {_concat: m_concat, partitioning_index: m_partitioning_index, shuffle_group: m_shuffle_group, merge_chunk: m_merge_chunk}

def _has_sym(x):
    if isinstance(x, SBase): return True
    if isinstance(x, (list, tuple)): return any(_has_sym(i) for i in x)
    if isinstance(x, dict): return any(_has_sym(i) for i in x.values())
    return False

def patch_modules():
    for name, mod in list(sys.modules.items()):
        if not name.startswith("dask_expr"): continue
        for attr, val in list(vars(mod).items()):
            try: hit = val in MODELS
            except TypeError: hit = False
            if hit:
                def w(*a, __real=val, __model=MODELS[val], **kw):
                    return __model(*a, **kw) if (_has_sym(a) or _has_sym(kw)) else __real(*a, **kw)
                setattr(mod, attr, w)
patch_modules()

def istask(t): return isinstance(t, tuple) and t and (callable(t[0]) or t[0] == "__lit__")

class Interp:
    def __init__(self, dsk, env): self.dsk, self.env, self.memo = dsk, env, {}
    def get(self, key):
        if key not in self.memo: self.memo[key] = self.ev(self.dsk[key])
        return self.memo[key]
    def iskey(self, x):
        try: return x in self.dsk
        except TypeError: return False
    def ev(self, t):
        if istask(t):
            f, args = t[0], t[1:]
            if f is Fused._execute_task:
                graph, name, *deps = args
                sub = dict(graph)
                for i, d in enumerate(deps): sub["_" + str(i)] = ("__lit__", self.ev(d))
                return Interp(sub, self.env).get(name)
            if f == "__lit__": return args[0]
            if f is apply:
                a = self.ev(args[1]) if len(args) > 1 else []
                kw = self.ev(args[2]) if len(args) > 2 else {}
                return self.call(args[0], a, kw)
            return self.call(f, [self.ev(a) for a in args], {})
        if isinstance(t, list): return [self.ev(x) for x in t]
        if isinstance(t, dict): return {k: self.ev(v) for k, v in t.items()}
        if self.iskey(t): return self.get(t)
        if isinstance(t, (pd.DataFrame, pd.Series)) and len(t) and str(t.dtypes.iloc[0] if isinstance(t, pd.DataFrame) else t.dtype).startswith("int") : return from_tagged(t, self.env)
        return t
    def call(self, f, a, kw):
        try:
            if f in MODELS: return MODELS[f](*a, **kw)
        except TypeError: pass
        if isinstance(f, methodcaller): return getattr(a[0], f.method)(*a[1:], **kw)
        return f(*a, **kw)

def run(expr, env):
    g = expr.__dask_graph__(); it = Interp(g, env)
    return [it.get(k) for k in expr.__dask_keys__()]

def row_eq(A, i, B, j):
    conj = []
    for c in A.columns:
        a, b = A.cols[c], B.cols[c]
        conj.append(z3.Or(z3.And(a.nulls[i], b.nulls[j]), z3.And(z3.Not(a.nulls[i]), z3.Not(b.nulls[j]), a.vals[i] == b.vals[j])))
    return z3.And(conj)

def multiset_neq(A, B):
    bad = []
    for X, n in ((A, len(A.valid)), (B, len(B.valid))):
        for i in range(n):
            ca = z3.Sum([z3.If(z3.And(A.valid[k], row_eq(A, k, X, i)), 1, 0) for k in range(len(A.valid))])
            cb = z3.Sum([z3.If(z3.And(B.valid[k], row_eq(B, k, X, i)), 1, 0) for k in range(len(B.valid))])
            bad.append(z3.And(X.valid[i], ca != cb))
    return z3.Or(bad)

TAG = 100000
def skel(n, cols, base): return pd.DataFrame({c: [TAG * (j + 1 + base) + i for i in range(n)] for j, c in enumerate(cols)})

if __name__ == "__main__":
    with dask.config.set({"dataframe.convert-string": False}):
        for nl, nr, pl, pr in ((4, 3, 2, 2), (4, 4, 3, 2), (6, 4, 3, 3)):
            L = dx.from_pandas(skel(nl, ["k", "a"], 0), npartitions=pl, sort=False)
            R = dx.from_pandas(skel(nr, ["k", "d"], 10), npartitions=pr, sort=False)
            m = L.merge(R, on="k", shuffle_method="tasks", broadcast=False)
            q = m[(m.a > 3) & (m.d < 9)][["a", "d"]]
            env = Env(); t0 = time.time()
            ref = m_concat(run(q.expr.lower_completely(), env))
            t1 = time.time()
            opt = m_concat(run(q.optimize(fuse=True).expr, env))
            t2 = time.time()
            s = z3.Solver(); s.add(multiset_neq(ref, opt)); r = s.check(); t3 = time.time()
            print((nl, nr, pl, pr), r, "slots", len(ref.valid), len(opt.valid), "encode", round(t1 - t0, 2), round(t2 - t1, 2), "solve", round(t3 - t2, 2))
        q.optimize().pprint()
