import warnings; warnings.filterwarnings("ignore")
import pandas as pd, numpy as np, dask, shutil, os
import dask_expr as dx
pdf = pd.DataFrame({"a":np.arange(12.0),"b":range(12),"c":range(12)}, index=pd.Index(range(10,22), name="idx"))
shutil.rmtree("/tmp/pq/d2", ignore_errors=True)
dx.from_pandas(pdf, npartitions=4).to_parquet("/tmp/pq/d2")
for fs in [None, "arrow"]:
    kw = {} if fs is None else {"filesystem": fs}
    r = dx.read_parquet("/tmp/pq/d2", calculate_divisions=True, **kw)
    q = (r[["b"]] + 1)
    print(fs, "logical", q.divisions, "optimized", q.optimize().divisions, q.optimize().npartitions)
    q.optimize().pprint()
