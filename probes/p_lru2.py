from dask_expr._util import LRU

def lru4(k1:int,k2:int,k3:int,k4:int,cap:int) -> bool:
    """
    pre: 1 <= cap <= 2
    pre: 0 <= k1 <= 2 and 0 <= k2 <= 2 and 0 <= k3 <= 2 and 0 <= k4 <= 2
    post: _
    """
    c = LRU(cap)
    for k in (k1,k2,k3,k4):
        tv = k * 10 + 7
        if k in c:
            got = c[k]
        else:
            got = tv
            c[k] = tv
        if got != tv: return False
        if len(c) > cap: return False
    return True
