#!/bin/bash
# Idempotent, offline: overlay venv on top of /venv with crosshair-tool + z3-solver from the wheelhouse.
set -e
cd "$(dirname "$0")"
V=/verif/.venv
if [ ! -x "$V/bin/python" ] || ! "$V/bin/python" -c "import crosshair, z3, dask_expr" >/dev/null 2>&1; then
  (
    flock 9
    if [ ! -x "$V/bin/python" ] || ! "$V/bin/python" -c "import crosshair, z3, dask_expr" >/dev/null 2>&1; then
      rm -rf "$V"
      /venv/bin/python -m venv "$V"
      SP="$V/lib/python3.12/site-packages"
      printf "import site; site.addsitedir('/venv/lib/python3.12/site-packages')\n" > "$SP/_overlay.pth"
      PIP_NO_INDEX=1 "$V/bin/pip" install -q --no-index --find-links /opt/veriftools/wheels crosshair-tool z3-solver >/dev/null
      "$V/bin/python" -c "import crosshair, z3, dask_expr"
    fi
  ) 9>/verif/.setup.lock
fi
mkdir -p /verif/.work /verif/evidence
