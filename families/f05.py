"""F05: programs for C05 - every dask-expr-owned task function that builds its result from a modified copy of its argument, each
with a second consumer of the same intermediate (so that an in-place change is visible in the other evaluation order), plus
reductions, shuffles, joins and user-function templates over shared intermediates."""
from __future__ import annotations

from vf.prun import Program, Src

LCOLS = {"a": "i", "b": "f", "c": "i"}
RCOLS = {"a": "i", "b": "f", "e": "i"}


def _inc(df):
    return df + 1


def _addcol(df, v=1):
    return df.assign(u=df.a + v)


def programs(tier):
    import dask_expr as dx

    progs = []
    layouts = [(4, 2)] if tier == "quick" else [(4, 2), (5, 3), (3, 1), (4, 4)]
    g = {"dx": dx, "_inc": _inc, "_addcol": _addcol}
    shared = [
        # assign: the copy(deep=False) before the column is written
        ("assign", "(lambda M: M.assign(z=M.a + 1).z.sum() + M.a.sum())(L)"),
        ("assign", "(lambda M: dx.concat([M.assign(a=M.a * 2), M]))(L[L.c > 0])"),
        ("assign", "(lambda M: M.assign(a=M.c, z=lambda d: d.a + 1).merge(M, on='c'))(L)"),
        ("assign", "(lambda M: (M.assign(b=M.b.fillna(0)).b + M.b).sum())(L + 1)"),
        ("assign", "(lambda M: dx.concat([M.assign(z=1)[['z', 'a']], M.assign(z=2)[['z', 'a']]]))(L.fillna(0))"),
        ("setitem", "(lambda M: (M.assign(q=M.a).q + M.a))(L.repartition(npartitions=1))"),
        # set_index: the blockwise post step names the index and casts the labels of its *new* frame
        ("set_index", "(lambda M: dx.concat([M.set_index('a', divisions=[0, 2, 4]).reset_index(), M]))(L[L.a < 4][L.a >= 0])"),
        ("set_index", "(lambda M: M.set_index('a', divisions=[0, 2, 4]).c.sum() + M.a.sum())(L[(L.a < 4) & (L.a >= 0)])"),
        ("set_index", "(lambda M: M.set_index(M.c, divisions=[0, 2, 4]).a.sum() + M.c.sum())(L[(L.c < 4) & (L.c >= 0)])"),
        ("set_index", "(lambda M: M.set_index('a', drop=False, divisions=[0, 2, 4]).a.sum() + M.index.size)(L[(L.a < 4) & (L.a >= 0)])"),
        # rename / index renames / column setters
        ("rename", "(lambda M: dx.concat([M.rename(columns={'a': 'x'}), M]))(L)"),
        ("rename", "(lambda M: M.a.rename('r').sum() + M.a.sum())(L)"),
        ("rename", "(lambda M: (M.a.rename('r') + M.a).to_frame('s').merge(M, left_index=True, right_index=True))(L)"),
        ("rename", "(lambda M: dx.concat([M.add_prefix('p_'), M.add_suffix('_s'), M]))(L)"),
        ("rename-index", "L.index.rename('key')"),
        ("rename-index", "(L + 1).index.rename('key')"),
        ("rename-index", "(lambda M: M.index.rename('key').size + M.reset_index().a.sum())(L)"),
        ("rename-index", "(lambda M: dx.concat([M.index.rename('key').to_frame(), M.index.to_frame()]))(L[L.a > 0])"),
        ("rename_axis", "(lambda M: dx.concat([M.rename_axis(index='k').reset_index(), M.reset_index()]))(L)"),
        ("to_frame", "(lambda S: dx.concat([S.to_frame('x'), S.to_frame('y')]))(L.a + 1)"),
        ("reset_index", "(lambda M: dx.concat([M.reset_index(), M.reset_index(drop=True)]))(L[L.a > 0])"),
        ("columns", "(lambda M: M.a.sum() + M.rename(columns={'a': 'c', 'c': 'a'}).a.sum())(L)"),
        # shuffles: the partitioning column is added to a copy
        ("shuffle", "(lambda M: dx.concat([M.shuffle('a'), M]))(L + 1)"),
        ("shuffle", "(lambda M: M.shuffle('a', npartitions=3).c.sum() + M.c.sum())(L[L.c > 0])"),
        ("shuffle", "(lambda M: M.shuffle('a', ignore_index=True).merge(M, on='a'))(L[['a', 'c']])"),
        ("shuffle-index", "(lambda M: dx.concat([M.shuffle(on=None, index_shuffle=True) if False else M.shuffle('c'), M.shuffle('a')]))(L)"),
        # joins / group-bys / reductions sharing an input
        ("merge", "(lambda M, R: M.merge(R, on='a').e.sum() + M.a.sum())(L.fillna(0), R)"),
        ("merge", "(lambda M: M.merge(M, on='a', suffixes=('_l', '_r')))(L[['a', 'c']])"),
        ("merge-index", "(lambda M, R: M.merge(R, left_index=True, right_index=True).e.sum() + M.c.sum())(L, R)"),
        ("groupby", "(lambda M: M.groupby('a').c.sum().sum() + M.groupby('c').a.sum().sum())(L + 1)"),
        ("groupby", "(lambda M: dx.concat([M.groupby('a').c.sum().to_frame(), M.groupby('a').c.max().to_frame()]))(L)"),
        ("groupby-agg", "(lambda M: M.groupby('a').agg({'c': 'sum', 'b': 'max'}).c.sum() + M.c.sum())(L)"),
        ("reduction", "(lambda M: (M.sum() + M.max()).sum() + M.a.min())(L.fillna(0))"),
        ("reduction", "(lambda M: (M - M.min()).a.sum() + (M - M.max()).c.sum())(L[['a', 'c']])"),
        ("dedup", "(lambda M: dx.concat([M.drop_duplicates(subset=['a']), M]))(L)"),
        ("value_counts", "(lambda M: M.a.value_counts().sum() + M.a.nunique())(L)"),
        ("cum", "(lambda M: dx.concat([M.cumsum(), M]))(L[['a', 'c']])"),
        ("cum", "(lambda M: (M.cumsum() + M.cummax()).a.sum() + M.a.sum())(L[['a', 'c']])"),
        ("window", "(lambda M: dx.concat([M.shift(1), M.diff(), M]))(L[['a', 'c']])"),
        ("fillna", "(lambda M: dx.concat([M.fillna(0), M.ffill(), M]))(L)"),
        ("where", "(lambda M: dx.concat([M.where(M.a > 1, 0), M.mask(M.a > 1, 0), M]))(L[['a', 'c']])"),
        ("astype", "(lambda M: dx.concat([M.astype({'a': 'float64'}), M]))(L)"),
        ("dropna", "(lambda M: dx.concat([M.dropna(), M.dropna(subset=['b']), M]))(L)"),
        ("head", "(lambda M: dx.concat([M.head(2, compute=False), M.tail(2, compute=False), M]))(L + 1)"),
        ("repartition", "(lambda M: dx.concat([M.repartition(npartitions=1), M.repartition(npartitions=4), M]))(L + 1)"),
        ("partitions", "(lambda M: dx.concat([M.partitions[[0]], M]))(L.assign(z=1))"),
        ("nlargest", "(lambda M: dx.concat([M.nlargest(2, 'a'), M.nsmallest(2, 'a')]))(L[['a', 'c']])"),
        # user functions (fixed, non-mutating templates) next to another consumer
        ("map_partitions", "(lambda M: dx.concat([M.map_partitions(_inc), M]))(L[['a', 'c']])"),
        ("map_partitions", "(lambda M: M.map_partitions(_addcol, 2, meta={'a': 'int64', 'c': 'int64', 'u': 'int64'}).u.sum() + M.a.sum())(L[['a', 'c']])"),
        ("map_partitions", "(lambda M: dx.concat([M.map_partitions(_addcol, v=M.a.sum(), meta={'a': 'int64', 'c': 'int64', 'u': 'int64'}) if False else M.map_partitions(_addcol, M.a.sum(), meta={'a': 'int64', 'c': 'int64', 'u': 'int64'}), M]))(L[['a', 'c']])"),
        ("copy", "(lambda M: dx.concat([M.copy().assign(z=1), M.copy(deep=False).assign(z=2), M]))(L[['a', 'c']])"),
        # a persisted-like source (from_graph) consumed twice
        ("diamond", "(lambda M: (M.a + 1) * (M.a - 1) + M.c)(L[L.a > 0])"),
        ("diamond", "(lambda M: M[M.a > 1].c.sum() + M.c.sum() + M.assign(c=0).c.sum())(L)"),
    ]
    for nrows, nparts in layouts:
        for how in (("pandas", "delayed", "graph") if tier != "quick" else ("pandas", "graph")):
            srcL = Src("L", nrows, LCOLS, nparts, how=how)
            srcR = Src("R", 3, RCOLS, max(1, nparts - 1))
            for tag, text in shared:
                srcs = [srcL, srcR] if "merge(R" in text else [srcL]
                ordered = not any(k in text for k in ("shuffle", "merge", "groupby", "drop_duplicates", "value_counts"))
                progs.append(Program(text, srcs, ordered=ordered, check_index=ordered, family="F05", note=tag, env_globals=g))
    return progs
