"""F01: general query programs (C01, C07, C19-P): operator chains x terminals x DAG shapes x layouts."""
from __future__ import annotations

from vf.prun import Program, Src
from .gen import Node, chains, terminals, root, op_merge, op_concat, op_filter, predicates, FRAME_OPS

LCOLS = {"a": "i", "b": "f", "c": "i"}
RCOLS = {"a": "i", "b": "f", "e": "i"}


def _prog(node: Node, srcs, family="F01", note=""):
    ordered = node.ordered and node.kind in ("frame", "series", "index")
    return Program(node.text, srcs, ordered=ordered, check_index=True, family=family, note="/".join(node.ops) or "source")


def _dx():
    import dask_expr as dx

    return {"dx": dx}


def all_programs(tier):
    progs = []
    depth = 2
    layouts = [(4, 2)] if tier == "quick" else [(4, 2), (5, 3), (3, 1)]
    seen = set()
    for nrows, nparts in layouts:
        L = root("L", LCOLS, nparts)
        R = root("R", RCOLS, max(1, nparts - 1))
        srcL = Src("L", nrows, LCOLS, nparts)
        srcR = Src("R", 3, RCOLS, max(1, nparts - 1))
        # chains over one input
        for node in chains(L, depth if nrows == 4 else min(depth, 2)):
            for t in terminals(node, rich=(len(node.ops) <= 1 or tier != "quick")):
                key = (t.text, nrows, nparts)
                if key in seen:
                    continue
                seen.add(key)
                progs.append(_prog(t, [srcL]))
        # two inputs: merge / concat of independently built inputs, then one more operator and a terminal
        lefts = [L] + [m for name in ("filter", "project", "assign", "rename") for m in FRAME_OPS[name](L)][:8]
        rights = [R] + [m for name in ("filter", "project") for m in FRAME_OPS[name](R)][:3]
        for l in lefts:
            for r in rights:
                for m in op_merge(l, r) + op_concat(l, r):
                    after = [m] + [x for name in ("filter", "project", "assign") for x in (FRAME_OPS[name](m) or [])][: (4 if tier == "quick" else 12)]
                    for a in after:
                        for t in terminals(a, rich=False):
                            key = (t.text, nrows, nparts)
                            if key in seen:
                                continue
                            seen.add(key)
                            p = _prog(t, [srcL, srcR])
                            p.env_globals = _dx()
                            progs.append(p)
        # a partition selection *below* operators that read the partition structure of their input (the selection is folded into the
        # source by the optimiser, so the operator sees a partition-filtered input)
        if (nrows, nparts) == layouts[0]:
            srcL3 = Src("L", 5, LCOLS, 3)
            sels = ["[[1]]", "[[1, 0]]", "[[0, 2]]", "[[2, 1]]"]
            for sel in sels:
                for tmpl, ordered in (("L.partitions{s}.cumsum()", True), ("(L + 1).partitions{s}.cummax().a", True), ("L.partitions{s}.merge(R, on='a', broadcast=True)", False),
                                      ("L.partitions{s}.merge(R, on='a', how='left', broadcast=True).e.sum()", False), ("L.partitions{s}.shift(1)", True), ("L.partitions{s}.a.diff()", True),
                                      ("L.partitions{s}.shuffle('a').c.sum()", False), ("L.partitions{s}.repartition(npartitions=3).a", True), ("L.partitions{s}.groupby('a').c.sum()", False),
                                      ("dx.concat([L.partitions{s}, L])", True), ("L.partitions{s}.set_index('a', divisions=[-100, 0, 100]).c.sum()", False), ("L.partitions{s}.reset_index()", True)):
                    text = tmpl.format(s=sel)
                    srcR2 = Src("R", 3, RCOLS, 2)
                    p = Program(text, [srcL3, srcR2] if "R" in text else [srcL3], ordered=ordered, family="F01", note="selection-below/" + tmpl.split("}")[1].split("(")[0].strip(".") + sel)
                    p.env_globals = _dx()
                    progs.append(p)
        # diamonds: one intermediate, two consumers with different column needs / filters
        for mid in [L] + [m for name in ("filter", "assign", "elem", "rename", "shuffle", "repartition") for m in (FRAME_OPS[name](L) or []) if m is not None]:
            i, f = mid.of("i"), mid.of("f")
            if not i:
                continue
            shapes = []
            if len(i) >= 2:
                shapes.append(f"(lambda M: M[M.{i[0]} > 1].{i[1]}.sum() + M.{i[1]}.sum())({mid.text})")
                shapes.append(f"(lambda M: M.{i[0]} + M[[{i[1]!r}]].{i[1]})({mid.text})")
                shapes.append(f"(lambda M: M[[{i[0]!r}]].assign(q=M.{i[1]}))({mid.text})")
            if f:
                shapes.append(f"(lambda M: M.{i[0]}.sum() + M.{f[0]}.count())({mid.text})")
                shapes.append(f"(lambda M: M[M.{f[0]}.isna()].{i[0]}.sum() - M[~M.{f[0]}.isna()].{i[0]}.sum())({mid.text})")
            for s in shapes:
                key = (s, nrows, nparts)
                if key in seen:
                    continue
                seen.add(key)
                scalar = ".sum()" in s.split("(")[1] if False else None
                progs.append(Program(s, [srcL], ordered=False, family="F01", note="diamond/" + "/".join(mid.ops)))
    return progs


def select(progs, tier, seed, limit):
    """quick tier: a deterministic slice that covers every operator tag at least once, rotated by the seed"""
    if tier != "quick" or len(progs) <= limit:
        return progs
    chosen, tags = [], set()
    order = list(range(len(progs)))
    rot = (seed * 7919) % len(progs)
    order = order[rot:] + order[:rot]
    for i in order:
        t = set(progs[i].note.split("/"))
        if not t <= tags:
            chosen.append(i)
            tags |= t
    step = max(1, len(progs) // max(1, limit - len(chosen)))
    for k, i in enumerate(order):
        if len(chosen) >= limit:
            break
        if k % step == 0 and i not in chosen:
            chosen.append(i)
    return [progs[i] for i in sorted(set(chosen))]
