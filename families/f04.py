"""F04: column selections after every operator (C04a) and queries that mention an explicit column subset (C04b widening)."""
from __future__ import annotations

from vf.prun import Program, Src
from .gen import root, chains, terminals, FRAME_OPS, Node, _n, op_merge, op_concat

LCOLS = {"a": "i", "b": "f", "c": "i", "d": "i"}
RCOLS = {"a": "i", "b": "f", "e": "i"}


def _selections(n: Node):
    """ordered / repeated / scalar-vs-list selections of <= 3 output columns, plus implicit-key consumers"""
    names = n.names
    out = []
    if not names or len(set(names)) != len(names):
        return out
    num = n.of("i", "f")
    i = n.of("i")
    out.append((f"{n.text}[{[names[-1]]!r}]", "sel-list1", True))
    out.append((f"{n.text}[{names[0]!r}]", "sel-scalar", True))
    if len(names) >= 2:
        out.append((f"{n.text}[{[names[-1], names[0]]!r}]", "sel-reorder", True))
        out.append((f"{n.text}[{[names[0], names[0]]!r}]", "sel-repeat", True))
    if len(names) >= 3:
        out.append((f"{n.text}[{[names[1], names[2], names[0]]!r}]", "sel-3", True))
    if num:
        out.append((f"{n.text}.{num[-1]}.sum()", "sel-sum", True))
    if i and len(num) >= 2:
        v = [c for c in num if c != i[0]][-1]
        out.append((f"{n.text}.groupby({i[0]!r}).{v}.sum()", "key-groupby", False))
        out.append((f"{n.text}.drop_duplicates(subset=[{i[0]!r}])[{[v]!r}]", "key-dedup", False))
        out.append((f"{n.text}.shuffle({i[0]!r})[{[v]!r}]", "key-shuffle", False))
        out.append((f"{n.text}.set_index({i[0]!r}, divisions=[-100, 0, 100])[{[v]!r}]", "key-set_index", False))
        out.append((f"{n.text}.nlargest(2, {i[0]!r})[{[v]!r}]", "key-nlargest", True))
    f = n.of("f")
    if f and i:
        out.append((f"{n.text}.dropna(subset=[{f[0]!r}])[{[i[0]]!r}]", "key-dropna", True))
    return out


WIDEN_SAFE = ["project", "filter", "assign", "rename", "elem", "reset_index", "repartition", "shuffle", "head", "cum", "window", "arith"]


def programs(tier):
    import dask_expr as dx

    progs = []
    layouts = [(4, 2)] if tier == "quick" else [(4, 2), (5, 3)]
    seen = set()
    for nrows, nparts in layouts:
        L = root("L", LCOLS, nparts)
        R = root("R", RCOLS, 1)
        srcL = Src("L", nrows, LCOLS, nparts)
        srcR = Src("R", 3, RCOLS, 1)
        nodes = [n for n in chains(L, 1 if tier == "quick" else 2, ops=WIDEN_SAFE) if n.kind == "frame"]
        if tier != "quick":
            nodes = nodes[:: max(1, len(nodes) // 500)]
        two = []
        for l in [L] + (FRAME_OPS["filter"](L)[:2]):
            for m in op_merge(l, R) + op_concat(l, R):
                two.append(m)
        for node in nodes + two:
            srcs = [srcL, srcR] if "R" in node.text.replace("R.", "R").split("L")[-1] or ".merge(" in node.text or "concat" in node.text else [srcL]
            for text, tag, ordered in _selections(node):
                if tag == "key-groupby" and ".shuffle(" in node.text and ".sum())" in node.text:
                    continue  # group-by over a broadcast reduction over a shuffle: beyond the solver budget (nested hash case splits), bounded out
                key = (text, nrows, nparts)
                if key in seen:
                    continue
                seen.add(key)
                progs.append(Program(text, srcs, ordered=ordered and node.ordered, family="F04", note="/".join(node.ops) + "/" + tag, env_globals={"dx": dx}))
        # operator forms whose projection rule has to treat the operands / options consistently
        srcM = Src("M", nrows, LCOLS, nparts + 1)
        M = root("M", LCOLS, nparts + 1)
        extra_nodes = [
            (_n(L, "(L + M)", "binop-unaligned", ordered=False), [srcL, srcM]), (_n(L, "(L * M[['a', 'b', 'c', 'd']])", "binop-unaligned", ordered=False), [srcL, srcM]),
            (_n(L, "L.add(M)", "method-binop-unaligned", ordered=False), [srcL, srcM]), (_n(L, "L.add(1)", "method-binop-scalar"), [srcL]), (_n(L, "L.sub(L)", "method-binop-self"), [srcL]),
            (_n(L, "L.mul(2)", "method-binop-scalar"), [srcL]), (_n(L, "L.rsub(1)", "method-binop-scalar"), [srcL]),
            (_n(L, "L.fillna({'b': 0})", "fillna-dict"), [srcL]), (_n(L, "L.fillna({'b': 0, 'a': 1})", "fillna-dict"), [srcL]),
            (_n(L, "L.isin({'a': [1, 2]})", "isin-dict", cols=tuple((c, "b") for c, _ in L.cols)), [srcL]), (_n(L, "L.isin([1, 2])", "isin-list", cols=tuple((c, "b") for c, _ in L.cols)), [srcL]),
            (_n(L, "L.groupby('a')[['b', 'c']].sum()", "groupby-list", cols=(("b", "f"), ("c", "i")), ordered=False), [srcL]),
            (_n(L, "L.groupby('a')[['c', 'd']].max()", "groupby-list", cols=(("c", "i"), ("d", "i")), ordered=False), [srcL]),
            (_n(L, "L.merge(R, left_on='a', right_on='e')", "merge-lr-on", cols=(("a_x", "i"), ("b_x", "f"), ("c", "i"), ("d", "i"), ("a_y", "i"), ("b_y", "f"), ("e", "i")), ordered=False), [srcL, srcR]),
            (_n(L, "L.merge(R, left_on='c', right_on='a')", "merge-lr-on", cols=(("a_x", "i"), ("b_x", "f"), ("c", "i"), ("d", "i"), ("a_y", "i"), ("b_y", "f"), ("e", "i")), ordered=False), [srcL, srcR]),
        ]
        BCOLS = tuple((c, "b") for c, _ in L.cols)
        extra_nodes += [
            # (session 3) more operator forms: empty affixes, mapping arguments of element-wise operators, frame conditions, label-indexed
            # reductions, operands with different column sets, index shuffles, casts of a column whose name is part of another name
            (_n(L, "L.add_suffix('')", "affix-empty"), [srcL]), (_n(L, "L.add_prefix('')", "affix-empty"), [srcL]),
            (_n(L, "L.round({'a': 1, 'b': 0})", "round-dict"), [srcL]), (_n(L, "L.round(1)", "round"), [srcL]),
            (_n(L, "L.replace({'a': {1: 100}})", "replace-dict"), [srcL]), (_n(L, "L.replace({'a': {1: 100}, 'd': {0: 5}})", "replace-dict"), [srcL]), (_n(L, "L.replace(1, 100)", "replace"), [srcL]),
            (_n(L, "L.where(L > 1)", "where-frame", cols=tuple((c, "f") for c, _ in L.cols)), [srcL]), (_n(L, "L.mask(L > 1, 0)", "mask-frame"), [srcL]),
            (_n(L, "L.where(L.a > 1)", "where-series", cols=tuple((c, "f") for c, _ in L.cols)), [srcL]),
            (_n(L, "L.clip(0, 2)", "clip"), [srcL]), (_n(L, "L.astype({'a': 'float64', 'd': 'float64'})", "astype-dict", cols=tuple((c, "f" if c in "ad" else k) for c, k in L.cols)), [srcL]),
            (_n(L, "L.rename(columns={'d': 'da'}).astype({'a': 'float64', 'da': 'float64'})", "astype-substring", cols=(("a", "f"), ("b", "f"), ("c", "i"), ("da", "f"))), [srcL]),
            (_n(L, "L.rename(columns={'d': 'da'}).fillna({'a': 0, 'da': 1})", "fillna-substring", cols=(("a", "i"), ("b", "f"), ("c", "i"), ("da", "i"))), [srcL]),
            (_n(L, "(L[['a', 'b']] + L[['b', 'c']])", "binop-different-columns", cols=(("a", "f"), ("b", "f"), ("c", "f"))), [srcL]),
            (_n(L, "(L[['a', 'c']] * L[['c', 'a']])", "binop-reordered-columns", cols=(("a", "i"), ("c", "i"))), [srcL]),
            (_n(L, "L.shuffle(on_index=True)", "shuffle-on-index", ordered=False), [srcL]),
            (_n(L, "L.isna()", "isna", cols=BCOLS), [srcL]), (_n(L, "L.notnull()", "notnull", cols=BCOLS), [srcL]), (_n(L, "(-L)", "neg"), [srcL]),
            (_n(L, "L.drop(columns=['c'])", "drop", cols=tuple((c, k) for c, k in L.cols if c != "c")), [srcL]),
            (_n(L, "L.dropna(how='all')", "dropna-all"), [srcL]), (_n(L, "L.ffill()", "ffill"), [srcL]), (_n(L, "L.bfill()", "bfill"), [srcL]),
            (_n(L, "L.sort_values('a', npartitions=1) if L.npartitions == 1 else L.set_index('a', divisions=[-100, 0, 100]).reset_index()", "set_index-reset", cols=(("a", "i"), ("b", "f"), ("c", "i"), ("d", "i")), ordered=False), [srcL]),
        ]
        # label-indexed reductions of a frame, then a selection of labels (pandas: Series indexed by the column names)
        for red in ("sum", "max", "count", "mean", "var", "std", "idxmax", "idxmin", "nunique", "all", "any", "min", "prod"):
            for sel in ("[['a']]", "[['d', 'a']]", "['c']"):
                progs.append(Program(f"L[['a', 'c', 'd']].{red}(){sel}", [srcL], ordered=False, check_index=True, family="F04", note=f"forms/reduction-labels/{red}", env_globals={"dx": dx}))
        for text in ("L[[]].size", "len(L[[]].index) + L.a.sum()", "L[['a']][[]].index.size + L.a.sum()", "L.a.to_frame().assign(z=L.b).tail(2, compute=False)", "L.add(L.a, axis=0).head(3, compute=False)",
                     "L.sub(L.c, axis=0)[['a']]", "L.a.to_frame().assign(z=L.b)[['z']]", "(lambda X: X[X.b > 1])(L.fillna(0).astype({'b': 'int64'}))",
                     "(lambda X: X[X.a == 1][['c']])(L.astype({'a': 'bool'}))", "(lambda X: X[X.a == 1].c.sum())(L.astype({'a': 'bool', 'c': 'float64'}))", "(lambda X: X[X.d != 2])(L.astype('bool')).a.sum()",
                     "(lambda X: X[X.a > 1][['c']])(L.replace({'a': {1: 100}}))", "(lambda X: X[X.a > 1].c.sum())(L.clip(0, 1))", "(lambda X: X[X.a > 2][['a']])(L.abs())",
                     "(lambda X: X[X.a == 1].c.sum())(L.where(L.a > 1, 1))", "(lambda X: X[X.b.isna()].a.sum())(L.fillna({'b': 0}))", "(lambda X: X[X.b.isna()].a.sum())(L.round({'b': 0}))"):
            progs.append(Program(text, [srcL], ordered=True, family="F04", note="forms/empty-selection-and-filters-over-elementwise", env_globals={"dx": dx}))
        for node, nsrcs in extra_nodes:
            for text, tag, ordered in _selections(node):
                if tag.startswith("key-") and tag != "key-groupby":
                    continue
                progs.append(Program(text, nsrcs, ordered=ordered and node.ordered, family="F04", note="forms/" + "/".join(node.ops) + "/" + tag, env_globals={"dx": dx}))
        for text in ("L.fillna({'b': 0})['b']", "L.fillna({'b': 0}).b.sum()", "L.fillna({'b': 0, 'a': 1})[['b']]", "L.isin({'a': [1, 2], 'c': [0]})['c']", "L.isin({'a': [1, 2]})[['a']]"):
            progs.append(Program(text, [srcL], ordered=True, family="F04", note="forms/mapping-argument", env_globals={"dx": dx}))
        # a suffix of None: the plain name of a shared non-key column belongs to that side only
        for suf in (("_l", None), (None, "_r"), ("_l", ""), ("", "_r")):
            for how in ("inner", "left"):
                base = f"L.merge(R, on='a', how={how!r}, suffixes={suf!r})"
                plain, other = ("b", "b" + (suf[0] or suf[1]))
                for sel in (f"[[{plain!r}]]", f"[{plain!r}]", f"[[{other!r}, {plain!r}]]", f"[[{plain!r}, 'e']]", f".{plain}.sum()"):
                    progs.append(Program(base + sel, [srcL, srcR], ordered=False, family="F04", note=f"merge-suffix-none/{how}", env_globals={"dx": dx}))
        # an array source whose column names are not in lexicographic order (its projection slices the data by position)
        ACOLS = {"d": "i", "a": "i", "c": "i", "b": "i"}
        A = root("A", ACOLS, nparts)
        srcA = Src("A", nrows, ACOLS, nparts, how="array")
        for node in [A] + [n for n in chains(A, 1, ops=["filter", "assign", "arith", "elem", "rename"]) if n.kind == "frame"]:
            if any(t in node.text for t in ("fillna", "isna", "dropna", "astype")):
                continue
            for text, tag, ordered in _selections(node):
                if tag.startswith("key-") and tag not in ("key-groupby",):
                    continue
                progs.append(Program(text, [srcA], ordered=ordered and node.ordered, family="F04", note="array/" + "/".join(node.ops) + "/" + tag, env_globals={"dx": dx}))
        # parquet datasets (fsspec and arrow readers): the selection becomes the reader's column list, multi-file fused reads included
        for how in ("parquet", "parquet-arrow"):
            PCOLS = {"d": "i", "a": "i", "c": "i", "b": "f"}
            Pq = root("A", PCOLS, nparts + 1)
            srcP = Src("A", nrows + 1, PCOLS, nparts + 1, how=how)
            for node in [Pq] + [n for n in chains(Pq, 1, ops=["assign", "arith", "elem", "rename", "project"]) if n.kind == "frame"]:
                for text, tag, ordered in _selections(node):
                    if tag.startswith("key-") and tag not in ("key-groupby", "key-shuffle"):
                        continue
                    progs.append(Program(text, [srcP], ordered=ordered and node.ordered, family="F04", note=f"{how}/" + "/".join(node.ops) + "/" + tag, env_globals={"dx": dx}))
            for text in ("A[['c', 'a']].partitions[[1]]", "A.partitions[[2, 0]][['b']]", "(A + 1).partitions[[1, 2]].d.sum()", "A.index.size + A.a.sum()", "len(A[['a']]) + A.c.sum()", "A[['b', 'a']].head(3, npartitions=2, compute=False)",
                         "A[['a']].tail(2, compute=False)", "dx.concat([A[['a']], A[['c', 'a']]])", "A[['a', 'c']].merge(A[['a', 'd']], on='a')"):
                progs.append(Program(text, [srcP], ordered="merge" not in text, check_index="merge" not in text, family="F04", note=f"{how}/selection-shapes", env_globals={"dx": dx}))
        # diamonds: one intermediate, consumers with different column needs
        for mid in [L] + [m for nme in ("filter", "assign", "elem", "rename") for m in (FRAME_OPS[nme](L) or [])][:10]:
            nm = mid.names
            if len(nm) < 3 or len(set(nm)) != len(nm):
                continue
            shapes = [
                f"(lambda M: M[[{nm[0]!r}]].assign(q=M.{nm[2]}))({mid.text})",
                f"(lambda M: M.{nm[0]} + M[[{nm[2]!r}, {nm[0]!r}]].{nm[2]})({mid.text})",
                f"(lambda M: M[M.{nm[0]} > 1][[{nm[2]!r}]].merge(M[[{nm[0]!r}, {nm[1]!r}]], left_index=True, right_index=True))({mid.text})",
                f"(lambda M: dx.concat([M[[{nm[0]!r}]], M[[{nm[2]!r}, {nm[0]!r}]]]))({mid.text})",
            ]
            for s in shapes:
                progs.append(Program(s, [srcL], ordered=False, family="F04", note="diamond/" + "/".join(mid.ops), env_globals={"dx": dx}))
    return progs
