"""F09: sibling programs (C09).  Two instances of one operator over the same input that differ in a single parameter are
evaluated in one graph: their hand-written layers must not contribute different tasks under one key."""
from __future__ import annotations

from vf.prun import Program, Src

LCOLS = {"a": "i", "b": "f", "c": "i"}
RCOLS = {"a": "i", "e": "i"}

# (template over X [and R], parameter values)
SIBLINGS = [
    ("X.repartition(partition_size={p})", ["'40B'", "'60B'", "'100B'", "'1kB'"]),
    ("X.repartition(npartitions={p})", ["4", "5", "7", "1", "2", "6", "8"]),
    ("X.repartition(divisions={p})", ["[0, 3, HI]", "[0, 2, HI]", "[0, 1, 2, 3, HI]"]),
    ("X.repartition(divisions={p}, force=True)", ["[-1, 3, 7]", "[-1, 2, 7]"]),
    ("X.shuffle('a', npartitions={p})", ["2", "4", "7"]),
    ("X.shuffle('a', max_branch={p})", ["2", "3"]),
    ("X.shuffle('a', shuffle_method='disk').partitions[{p}]", ["[0, 1]", "[2]", "[1, 2]"]),
    ("X.shuffle('a', shuffle_method='tasks').partitions[{p}]", ["[0, 1]", "[2]", "[1, 2]"]),
    ("X.shuffle({p})", ["'a'", "'c'", "['a', 'c']"]),
    ("X.sum(split_every={p})", ["2", "3", "False"]),
    ("X.a.mean(split_every={p})", ["2", "3"]),
    ("X.groupby('a').c.sum(split_every={p})", ["2", "3"]),
    ("X.groupby('a').c.sum(split_out={p})", ["2", "3"]),
    ("X.groupby({p}).b.sum()", ["'a'", "'c'"]),
    ("X.groupby('a').c.{p}()", ["sum", "max", "count"]),
    ("X.set_index('a', divisions={p})", ["[-50, 0, 50]", "[-50, 1, 50]", "[-50, -1, 0, 1, 50]"]),
    ("X.set_index({p}, divisions=[-50, 0, 50])", ["'a'", "'c'"]),
    ("X.sort_values('a', ascending={p}, npartitions=2)", ["True", "False"]),
    ("X.{p}()", ["cumsum", "cumprod", "cummax", "cummin"]),
    ("X.cumsum(skipna={p})", ["True", "False"]),
    ("X.rolling({p}).sum()", ["2", "3"]),
    ("X.shift({p})", ["1", "2", "-1"]),
    ("X.a.diff({p})", ["1", "2"]),
    ("X.merge(R, on='a', how={p}, broadcast=True)", ["'inner'", "'left'"]),
    ("X.merge(R, on='a', how='inner', broadcast={p})", ["True", "False"]),
    ("X.merge(R, on='a', how='left', npartitions={p}, broadcast=False)", ["2", "4"]),
    ("X.head({p}, npartitions=2, compute=False)", ["2", "3"]),
    ("X.head(2, npartitions={p}, compute=False)", ["1", "2", "-1"]),
    ("X.tail({p}, compute=False)", ["1", "2"]),
    ("X.nlargest({p}, 'a')", ["2", "3"]),
    ("X.nsmallest(2, {p})", ["'a'", "'c'"]),
    ("X.drop_duplicates(subset=['a'], split_out={p})", ["2", "3"]),
    ("X.a.unique(split_out={p})", ["2", "3"]),
    ("X.a.value_counts(split_out={p})", ["2", "3"]),
    ("X.partitions[{p}]", ["[0, 1]", "[1, 0]", "[1, 1]", "[0]"]),
    ("X.loc[{p}]", ["1:3", "2:4", "0:0"]),
    ("X.loc[{p}:]", ["1", "2"]),
    ("X.map_partitions(lambda d, k: d + k, {p})", ["1", "2"]),
    ("X.a.map_overlap(lambda s: s.rolling(2).sum(), {p}, 0)", ["1", "2"]),
    ("X.sample(frac=0.5, random_state={p})", ["1", "2"]),
    ("X.fillna({p})", ["0", "1"]),
    ("X.a.quantile({p})", ["0.25", "0.5"]),
    ("X.describe(percentiles=[{p}])", ["0.25", "0.5"]),
    ("X.a.to_frame().assign(z={p})", ["1", "2"]),
    ("X.dropna(subset=[{p}])", ["'b'", "'a'"]),
    ("X.reset_index(drop={p})[['a']]", ["True", "False"]),
    ("X.a.isin({p}).to_frame()", ["[1]", "[2]"]),
    ("X.a.clip({p}, 3).to_frame()", ["0", "1"]),
    ("X.b.round({p}).to_frame()", ["0", "1"]),
    ("X.astype({{'a': {p}}})", ["'float64'", "'int32'"]),
    ("X.var(ddof={p})", ["0", "1"]),
    ("X.std(ddof={p})", ["0", "1"]),
    ("X.a.nunique(split_every={p})", ["2", "3"]),
    ("X.idxmax(skipna={p})", ["True", "False"]),
    ("X.memory_usage(deep={p})", ["True", "False"]),
    ("X.groupby('a').c.cumsum() + {p}", ["1", "2"]),
    ("X.groupby('a').c.shift({p})", ["1", "2"]),
    ("X.groupby('a').agg({{'c': {p}}})", ["'sum'", "'max'"]),
    ("X.groupby('a').c.apply(lambda s, k: s + k, {p}, meta=('c', 'i8'))", ["1", "2"]),
    ("X.groupby('a').b.mean(split_out={p})", ["1", "2"]),
    ("X.groupby('a').b.var(ddof={p})", ["0", "1"]),
    ("X.groupby('a').b.median(split_every={p})", ["2", "3"]),
    ("X.set_index('a', npartitions={p})", ["2", "4"]),
    ("X.set_index('a', sorted=True, divisions={p})", ["[-100, 0, 50, 100]"]),
    ("X.pivot_table(index='a', columns='k', values='c', aggfunc={p})", ["'sum'", "'mean'"]),
]


_UNKNOWN_DIVISIONS_TOO = ("repartition(npartitions", "repartition(partition_size", "shuffle(", "head(", "tail(", "partitions[", "merge(", "cumsum", "X.{p}()",
                          "map_partitions", "drop_duplicates", "nlargest", "groupby('a').c.sum(split_out")


def programs(tier):
    import dask_expr as dx

    progs = []
    layouts = [(6, 3)] if tier == "quick" else [(6, 3), (8, 4), (5, 2)]
    for nrows, nparts in layouts:
        srcR = Src("R", 3, RCOLS, 2)
        for tmpl, params, how in [(t, p, h) for t, p in SIBLINGS for h in ("pandas", "delayed")]:
            if "pivot_table" in tmpl:
                continue
            if how == "delayed" and not any(k in tmpl for k in _UNKNOWN_DIVISIONS_TOO):
                continue
            # a second source kind with *unknown* divisions: repartition / alignment / selections plan differently there
            srcX = Src("X", nrows, LCOLS, nparts, how=how)
            srcs = [srcX, srcR] if "R" in tmpl else [srcX]
            texts = [tmpl.format(p=p).replace("HI", str(nrows - 1)) for p in params]
            pairs = [(texts[i], texts[j]) for i in range(len(texts)) for j in range(i + 1, len(texts))]
            if tier == "quick":
                pairs = pairs[:3]
            for a, b in pairs:
                progs.append(Program(f"SIB({a}, {b})", srcs, family="F09", note="siblings/" + tmpl.split("(")[0], env_globals={"dx": dx, "SIB": _sib}))
            if len(texts) >= 3:
                progs.append(Program(f"SIB({', '.join(texts)})", srcs, family="F09", note="siblings-all/" + tmpl.split("(")[0], env_globals={"dx": dx, "SIB": _sib}))
    return progs


def _sib(*colls):
    """one collection whose graph holds every argument: frames / series side by side, scalars summed"""
    import dask_expr as dx
    from dask_expr._collection import FrameBase, Scalar

    frames = [c.to_frame() if c.ndim == 1 else c for c in colls if isinstance(c, FrameBase) and getattr(c, "ndim", 0) >= 1]
    scalars = [c for c in colls if not (isinstance(c, FrameBase) and getattr(c, "ndim", 0) >= 1)]
    if frames and not scalars:
        return dx.concat(frames)
    if scalars and not frames:
        out = scalars[0]
        for s in scalars[1:]:
            out = out + s
        return out
    raise TypeError("mixed siblings")
