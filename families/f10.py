"""F10: queries x execution-knob grid (C10).  Partition counts 1..9 with single-row partitions so that both sides of every
algorithm-selection threshold are inhabited."""
from __future__ import annotations

from vf.prun import Program, Src

LCOLS = {"a": "i", "b": "f", "c": "i"}
RCOLS = {"a": "i", "e": "i"}

SPLIT_EVERY = [False, 2, 3, 4, 8]
SPLIT_OUT = [1, 2, 3, True]


def pairs(tier):
    """-> list of (Program(default text), variant text, tag)"""
    import dask_expr as dx

    out = []
    nparts_list = [1, 2, 3, 5, 9] if tier == "quick" else list(range(1, 10))
    heavy_max = 5  # (also in the thorough tier: 6+ single-row partitions time z3 out)  groupby / unique / merge terms are nested group reductions: bounded harder
    for n in nparts_list:
        srcL = Src("L", n, LCOLS, n, how="delayed", cuts=tuple(range(n + 1)))
        P = lambda text, srcs=None: Program(text, srcs or [srcL], ordered=False, family="F10", note=f"n={n}", env_globals={"dx": dx})
        # reductions: tree depth / batching
        for q in ("L.sum({k})", "L.a.mean({k})", "L.count({k})", "L.b.min({k})", "L.a.max({k})", "(L.a > 1).any({k})"):
            for se in SPLIT_EVERY:
                if tier == "quick" and se in (4,) and n not in (5, 9):
                    continue
                out.append((P(q.format(k="")), q.format(k=f"split_every={se}"), "split_every"))
        if n > heavy_max:
            continue
        # groupby: tree vs shuffle reduction
        for q in ("L.groupby('a').c.sum({k})", "L.groupby('a').b.mean({k})", "L.groupby('a').count({k})", "L.groupby('a').size({k})", "L.groupby('a').b.median({k})"):
            if "median" in q and n > (2 if tier == "quick" else 3):
                continue  # order statistics: cubic in the rows
            for se in (SPLIT_EVERY if tier != "quick" else [False, 2, 8]):
                out.append((P(q.format(k="")), q.format(k=f"split_every={se}"), "groupby-split_every"))
            for so in SPLIT_OUT:
                out.append((P(q.format(k="")), q.format(k=f"split_out={so}"), "groupby-split_out"))
                if tier != "quick" or so in (2, True):
                    out.append((P(q.format(k="")), q.format(k=f"split_out={so}, split_every=2"), "groupby-split_out-every"))
        # grouped variance, multi-function aggregation and the missing-key group: every level of the tree must group alike
        for q in ("L.groupby('a').b.var({k})", "L.groupby('b', dropna=False).c.sum({k})", "L.groupby('b', dropna=False).c.var({k})", "L.groupby('b', dropna=False).c.mean({k})",
                  "L.groupby('a').agg({{'c': 'sum', 'b': 'mean'}}{c}{k})", "L.groupby('b', dropna=False).agg({{'c': ['sum', 'count']}}{c}{k})", "L.groupby('a').c.std({k})"):
            if n > 3 and tier == "quick" and ("std" in q or "mean" in q):
                continue
            for kw in ["split_every=2", "split_every=3", "split_every=False", "split_out=2", "split_out=2, split_every=2"]:
                if tier == "quick" and kw == "split_every=3" and n != 5:
                    continue
                out.append((P(q.format(k="", c="")), q.format(k=kw, c=", "), "groupby-tree-kwargs"))
        # unique / drop_duplicates / value_counts
        for q in ("L.a.unique({k})", "L.drop_duplicates(subset=['a']{c}{k})", "L.a.value_counts({k})", "L.drop_duplicates({k})", "L.a.nunique({k})", "L.b.value_counts(dropna=False{c}{k})", "L.b.value_counts(sort=False{c}{k})"):
            base = q.format(k="", c="")
            for kw in ["split_out=1", "split_out=2", "split_out=True", "split_every=2", "split_every=3", "split_out=2, split_every=2", "split_out=1, split_every=2", "split_out=1, split_every=3"]:
                if "nunique" in q and "split_out" in kw:
                    continue
                out.append((P(base), q.format(k=kw, c=", " if "{c}" in q else ""), "unique-split"))
        # shuffles
        for q in ("L.shuffle('a'{k})",):
            for kw in [", max_branch=2", ", max_branch=3", ", max_branch=4", f", npartitions={max(1, n - 1)}", f", npartitions={n + 2}", ", shuffle_method='simple'" if False else ", ignore_index=True"]:
                out.append((P(q.format(k="")), q.format(k=kw), "shuffle-knobs"))
        # set_index with user divisions: npartitions hints are irrelevant there, but shuffle knobs apply
        out.append((P("L.set_index('a', divisions=[-50, 0, 50])"), "L.set_index('a', divisions=[-50, 0, 50], max_branch=2)", "set_index-knobs"))
        out.append((P("L.set_index('a', divisions=[-50, 0, 50])"), "L.set_index('a', divisions=[-50, -1, 0, 1, 50])", "set_index-divisions-layout"))
        # merges on differently named keys (the shuffle / broadcast code paths name the two keys separately)
        for m in (1, 2, 4) if tier == "quick" else (1, 2, 3, 4, 6):
            srcR2 = Src("R", m, RCOLS, m, how="delayed", cuts=tuple(range(m + 1)))
            for how in ("inner", "left", "right"):
                base = f"L.merge(R, left_on='c', right_on='e', how={how!r})"
                for kw in ["broadcast=True", "broadcast=False", "npartitions=3"]:
                    out.append((P(base, [srcL, srcR2]), f"L.merge(R, left_on='c', right_on='e', how={how!r}, {kw})", "merge-knobs-keys"))
                    out.append((P(f"R.merge(L, left_on='e', right_on='c', how={how!r})", [srcL, srcR2]), f"R.merge(L, left_on='e', right_on='c', how={how!r}, {kw})", "merge-knobs-keys-swapped"))
        # a merge key that is the (named) index of one side and a column of the other
        if n >= 2:
            srcLI = Src("LI", n, {"b": "f", "c": "i"}, n, how="delayed", cuts=tuple(range(n + 1)), index_name="a")
            for m in (2, 3):
                srcR3 = Src("R", m, RCOLS, m, how="delayed", cuts=tuple(range(m + 1)))
                for how in ("inner", "left", "right"):
                    base = f"LI.merge(R, on='a', how={how!r})"
                    for kw in ["broadcast=True", "broadcast=False", "npartitions=3"]:
                        out.append((P(base, [srcLI, srcR3]), f"LI.merge(R, on='a', how={how!r}, {kw})", "merge-knobs-index-key"))
                        out.append((P(f"R.merge(LI, on='a', how={how!r})", [srcLI, srcR3]), f"R.merge(LI, on='a', how={how!r}, {kw})", "merge-knobs-index-key"))
        # a join input that was shuffled by the user beforehand (same columns in another order, same / different partition count):
        # whatever the join does about it, the result is that of the plain join
        if n in (2, 3):
            KC = {"a": "i", "c": "i", "e": "i"}
            for m in (n, n + 1):
                srcR4 = Src("R", m, KC, m, how="delayed", cuts=tuple(range(m + 1)))
                for how in ("inner", "left", "outer"):
                    base = f"L.merge(R, on=['c', 'a'], how={how!r}, broadcast=False)"
                    k = max(n, m)
                    for pre in (f"L.shuffle(['a', 'c'], npartitions={k})", f"L.shuffle(['c', 'a'], npartitions={k})", f"L.shuffle(['a', 'c'], npartitions={k + 1})", "L.shuffle('a')"):
                        out.append((P(base, [srcL, srcR4]), f"{pre}.merge(R, on=['c', 'a'], how={how!r}, broadcast=False)", "merge-preshuffled"))
                    out.append((P(base, [srcL, srcR4]), f"L.merge(R.shuffle(['a', 'c'], npartitions={k}), on=['c', 'a'], how={how!r}, broadcast=False)", "merge-preshuffled"))
        # merges: broadcast vs hash join, npartitions hint
        for m in (1, 2, 4) if tier == "quick" else (1, 2, 3, 4, 6):
            srcR = Src("R", m, RCOLS, m, how="delayed", cuts=tuple(range(m + 1)))
            for how in ("inner", "left", "right", "outer"):
                base = f"L.merge(R, on='a', how={how!r})"
                for kw in ["broadcast=True", "broadcast=False", "broadcast=0.3", "broadcast=0.9", "npartitions=2", f"npartitions={n + 1}", "shuffle_method='tasks'",
                           "broadcast=True, npartitions=2", f"broadcast=True, npartitions={n + 1}", "broadcast=False, npartitions=2"]:
                    if tier == "quick" and how in ("right", "outer") and kw not in ("broadcast=True", "broadcast=False", "npartitions=2", "broadcast=True, npartitions=2"):
                        continue
                    out.append((P(base, [srcL, srcR]), f"L.merge(R, on='a', how={how!r}, {kw})", "merge-knobs"))
    return out
