"""F03: one filter above each operator kind it can cross (C03.2), merge legality table included."""
from __future__ import annotations

from vf.prun import Program, Src
from .gen import root, predicates, FRAME_OPS, Node, _n

LCOLS = {"a": "i", "b": "f", "c": "i"}
RCOLS = {"a": "i", "b": "f", "e": "i"}


def programs(tier):
    import dask_expr as dx

    progs = []
    layouts = [(4, 2)] if tier == "quick" else [(4, 2), (5, 3), (4, 1)]
    for nrows, nparts in layouts:
        L = root("L", LCOLS, nparts)
        srcL = Src("L", nrows, LCOLS, nparts)
        srcLd = Src("L", nrows, LCOLS, nparts, index=tuple([0, 0, 1, 1, 2, 2][:nrows]))  # duplicate index labels
        srcR = Src("R", 3, RCOLS, 2 if nparts > 1 else 1)
        crossable = []
        for name in ("project", "arith", "elem", "assign", "rename", "reset_index", "shuffle", "repartition", "dropna", "dedup", "filter"):
            crossable += [m for m in (FRAME_OPS[name](L) or []) if m is not None]
        crossable.append(_n(L, "L.a.to_frame()", "to_frame", cols=(("a", "i"),)))
        crossable.append(_n(L, "L.astype('float64')", "astype-all", cols=tuple((c, "f") for c in L.names)))
        # conversions that change how a value compares (int -> bool): the predicate has to see the converted values
        crossable.append(_n(L, "L.astype({'a': 'bool'})", "astype-bool", cols=(("a", "b"), ("b", "f"), ("c", "i"))))
        crossable.append(_n(L, "L[['a', 'c']].astype('bool')", "astype-bool-all", cols=(("a", "b"), ("c", "b"))))
        crossable.append(_n(L, "L.set_index('a', divisions=[-10, 0, 10]).reset_index()", "set_index-div", cols=(("a", "i"), ("b", "f"), ("c", "i")), index_ok=False, ordered=False))
        crossable.append(_n(L, "L.sort_values('a')", "sort_values", ordered=False) if nparts == 1 else None)
        # the new index given as a separate series (data-dependent planning: outside the model, covered by the crash oracle)
        crossable.append(_n(L, "L.set_index(L.c * 2)", "set_index-series-key", cols=(("a", "i"), ("b", "f"), ("c", "i")), index_ok=False, ordered=False))
        for mid in [m for m in crossable if m is not None]:
            if mid.ops and mid.ops[-1].startswith("astype-bool"):
                for tag, p in (("eq1", "Y.a == 1"), ("bool", "Y.a"), ("not", "~Y.a"), ("ne2", "Y.a != 2"), ("and", "(Y.a == 1) & (Y.c > 0)")):
                    progs.append(Program(f"(lambda Y: Y[{p}])({mid.text})", [srcL], ordered=False, family="F03", note=f"{'/'.join(mid.ops)}/pred-{tag}"))
                continue
            for tag, p in predicates(mid, "Y"):
                text = f"(lambda Y: Y[{p}])({mid.text})"
                progs.append(Program(text, [srcL], ordered=False, family="F03", note=f"{'/'.join(mid.ops)}/pred-{tag}"))
                if tier != "quick" or tag in ("and", "vsred", "orfactor"):
                    # consecutive filters (squashing) and a second consumer of the filtered frame
                    progs.append(Program(f"(lambda Z: Z[Z.{mid.names[0]} != 0])({text})", [srcL], ordered=False, family="F03", note=f"{'/'.join(mid.ops)}/pred-{tag}/squash"))
                    progs.append(Program(f"(lambda Z: Z[Z.{mid.names[0]} != 0])({text})", [srcLd], ordered=False, family="F03", note=f"{'/'.join(mid.ops)}/pred-{tag}/squash-dupindex"))
        # an expression that filters may pass through, used as the *predicate* itself (it is not the frame being filtered)
        for ptxt in ("L.a.astype('bool')", "(L.a > 1).rename('x')", "(L.a > 1).to_frame('k').k", "(L.a > 0).astype('int64').astype('bool')", "(L.c > 0).rename('a') & (L.a > 0)",
                     "L[['a']].astype('bool').a", "(L.reset_index().a > 0) if False else (L.a.abs() > 1).rename(None)"):
            progs.append(Program(f"L[{ptxt}]", [srcL], ordered=False, family="F03", note="predicate-is-passthrough-op"))
            progs.append(Program(f"L[{ptxt}].c.sum()", [srcL], ordered=False, family="F03", note="predicate-is-passthrough-op"))
        # frame-valued predicates: Y[Y > c] masks cells, it does not select rows, and must not be moved like a row filter
        for mid in [m for m in crossable if m is not None] + [_n(L, "L.set_index('a', divisions=[-10, 0, 10])", "set_index-only", cols=(("b", "f"), ("c", "i")), ordered=False)]:
            for ptag, p in (("gt", "Y > 0"), ("ne", "Y != 1"), ("and", "(Y > 0) & (Y < 2)")):
                progs.append(Program(f"(lambda Y: Y[{p}])({mid.text})", [srcL], ordered=False, family="F03", note=f"{'/'.join(mid.ops)}/mask-{ptag}"))
            progs.append(Program(f"(lambda Z: Z[Z > -1])((lambda Y: Y[Y > 0])({mid.text}))", [srcL], ordered=False, family="F03", note=f"{'/'.join(mid.ops)}/mask-squash"))
        for how in ("inner", "left"):
            progs.append(Program(f"(lambda M: M[M > 0])(L.merge(R, on='a', how={how!r}))", [srcL, srcR], ordered=False, family="F03", note=f"merge-{how}/mask"))
        # predicates that are not row-wise (cumulative / shifted values of the filtered frame) must not be squashed or moved
        for inner in ("Y[Y.a > 0]", "Y[Y.b.isna()]"):
            for outer in ("Z[Z.c.cumsum() > 2]", "Z[Z.a.shift(1) > 0]", "Z[Z.c > Z.c.sum() - 3]", "Z[Z.c.cummax() > Z.a]"):
                progs.append(Program(f"(lambda Z: {outer})((lambda Y: {inner})(L))", [srcL], ordered=False, family="F03", note="squash/non-rowwise-predicate"))
        progs.append(Program("dx.concat([L, (lambda Y: Y[((Y.a > 0) & (Y.b < 2)) | ((Y.a > 0) & (Y.e > 5))])(R)])", [srcL, srcR], ordered=False, family="F03", note="concat/or-filter-on-second-input", env_globals={"dx": dx}))
        # filters on the former index after reset_index
        for p in ("Y['index'] > 1", "(Y['index'] > 0) & (Y.a < 2)", "Y['index'].isin([0, 2])"):
            progs.append(Program(f"(lambda Y: Y[{p}])(L.reset_index())", [srcL], ordered=False, family="F03", note="reset_index/pred-index"))
        # merge legality table
        preds = {
            "left-only": "M.c > 1", "right-only": "M.e > 1", "key": "M.a > 1", "left-suffixed": "M.b_x < 2", "right-suffixed": "M.b_y < 2",
            "both": "M.c > M.e", "left-null": "M.b_x.isna()", "right-null": "M.e.isna()", "and-split": "(M.c > 0) & (M.e < 2)", "ne-right": "M.e != 1",
            # reductions over the join result inside the predicate: the value changes with the rows, so nothing may move
            "vs-reduction": "M.c >= M.c.max() - 1", "vs-reduction-right": "M.e > M.e.min() + 0", "and-reduction": "(M.a > 0) & (M.c >= M.c.max() - 1)",
        }
        hows = ["inner", "left", "right", "outer"]
        for how in hows:
            for ptag, p in preds.items():
                base = f"L.merge(R, on='a', how={how!r})"
                variants = {
                    "sole": f"(lambda M: M[{p}])({base})",
                    "pred-consumer": f"(lambda M: M[({p}) & (M.c >= M.c.min())])({base})",
                    "other-consumer": f"(lambda M: M[{p}].c.sum() + M.c.count())({base})",
                }
                for vtag, text in variants.items():
                    if tier == "quick" and vtag != "sole" and ptag not in ("left-only", "right-only", "both"):
                        continue
                    progs.append(Program(text, [srcL, srcR], ordered=False, family="F03", note=f"merge-{how}/{ptag}/{vtag}", env_globals={"dx": dx}))
            # several filters on one join result (each is a consumer the others' rules have to respect; rule pairs that undo each other loop)
            base = f"L.merge(R, on='a', how={how!r})"
            for f1, f2 in (("(M.c > 0) & (M.e < 2)", "M.c > 1"), ("(M.c > 0) & (M.e < 2)", "M.c > 0"), ("(M.b_x < 2) & (M.e > 0)", "M.e > 1"), ("M.c > 1", "M.e < 2"),
                           ("(M.c > 0) & (M.e < 2)", "(M.c > 1) & (M.b_y < 3)")):
                progs.append(Program(f"(lambda M: dx.concat([M[{f1}], M[{f2}]]))({base})", [srcL, srcR], ordered=False, family="F03", note=f"merge-{how}/two-filters", env_globals={"dx": dx}))
                progs.append(Program(f"(lambda M: M[{f1}].c.sum() + M[{f2}].e.sum())({base})", [srcL, srcR], ordered=False, family="F03", note=f"merge-{how}/two-filters-reduced", env_globals={"dx": dx}))
            # a non-key column present on both sides with one empty suffix: the plain name belongs to one side only
            for suf, plain in ((("", "_r"), "left"), (("_l", ""), "right"), (("_l", "_r"), None)):
                names = {"left": "b" + suf[0], "right": "b" + suf[1]}
                for side in ("left", "right"):
                    col = names[side]
                    for p in (f"M.{col} < 2", f"M.{col}.isna()", f"(M.{col} != 0) & (M.a > 0)"):
                        progs.append(Program(f"(lambda M: M[{p}])(L.merge(R, on='a', how={how!r}, suffixes={suf!r}))", [srcL, srcR], ordered=False, family="F03",
                                             note=f"merge-{how}/suffix{suf}/{side}"))
            # a rewritten (OR-factored) filter on the *second* input of a merge / concat
            progs.append(Program(f"L.merge((lambda Y: Y[((Y.a > 0) & (Y.b < 2)) | ((Y.a > 0) & (Y.e > 5))])(R), on='a', how={how!r})", [srcL, srcR], ordered=False, family="F03", note=f"merge-{how}/or-filter-on-right-input"))
            progs.append(Program(f"(lambda Y: Y[((Y.a > 0) & (Y.b < 2)) | ((Y.a > 0) & (Y.c > 5))])(L).merge(R, on='a', how={how!r})", [srcL, srcR], ordered=False, family="F03", note=f"merge-{how}/or-filter-on-left-input"))
            # suffix collision variants: the predicate column is renamed by suffixing on one side only
            progs.append(Program(f"(lambda M: M[M.c_x > 0])(L.merge(R.rename(columns={{'e': 'c'}}), on='a', how={how!r}))", [srcL, srcR], ordered=False, family="F03", note=f"merge-{how}/suffix-left-renamed"))
            progs.append(Program(f"(lambda M: M[M.c_y > 0])(L.merge(R.rename(columns={{'e': 'c'}}), on='a', how={how!r}))", [srcL, srcR], ordered=False, family="F03", note=f"merge-{how}/suffix-right-renamed"))
            progs.append(Program(f"(lambda M: M[M.c > 0])(L.merge(R[['a', 'e']], on='a', how={how!r}, suffixes=('', '_r')))", [srcL, srcR], ordered=False, family="F03", note=f"merge-{how}/empty-suffix"))
    return progs
