"""F14: partitionwise DAGs for fusion (C14): chains, shared nodes, broadcast operands, mixed partition counts, blockwise
segments between non-blockwise stages, several fusion passes."""
from __future__ import annotations

from vf.prun import Program, Src
from .gen import root, chains, terminals, FRAME_OPS
from vf.common import seed

LCOLS = {"a": "i", "b": "f", "c": "i"}
RCOLS = {"a": "i", "b": "f", "e": "i"}


def programs(tier):
    progs = []
    layouts = [(4, 2)] if tier == "quick" else [(4, 2), (5, 3), (3, 1)]
    seen = set()
    blockwise = ["project", "filter", "assign", "arith", "rename", "elem", "reset_index", "dropna"]
    for nrows, nparts in layouts:
        L = root("L", LCOLS, nparts)
        srcL = Src("L", nrows, LCOLS, nparts)
        srcR = Src("R", 3, RCOLS, 1)
        srcR2 = Src("R", 4, RCOLS, nparts)
        nodes = list(chains(L, 2, ops=blockwise))
        step = 1 if tier != "quick" else max(1, len(nodes) // 90)
        for node in nodes[::step]:
            key = (node.text, nrows, nparts)
            if key in seen:
                continue
            seen.add(key)
            progs.append(Program(node.text, [srcL], ordered=True, family="F14", note="chain/" + "/".join(node.ops)))
        shapes = [
            # shared node with 2-3 consumers
            "(lambda M: (M.a + 1) * (M.a - 1) + M.c)(L[L.a > 0])",
            "(lambda M: M.assign(x=M.a + M.c, y=M.a * 2)[['x', 'y']])((L + 1))",
            "(lambda M: M[M.a > 1].c + M[M.a > 1].a)(L.fillna(0))",
            # broadcast operands: scalar and single-partition frames
            "(L.a + L.a.sum()) * 2",
            "(L - L.sum()).abs()",
            "(lambda M: M.assign(z=M.a - M.a.max())[['z', 'b']])(L)",
            "L.merge(R, on='a')[['b_x', 'e']] + 1",
            "(L[['a','c']] + 1).merge(R[['a','e']] * 2, on='a').assign(q=lambda d: d.c + d.e)" if False else "(L[['a','c']] + 1).merge(R[['a','e']] * 2, on='a')",
            # blockwise segment between two non-blockwise stages
            "((L + 1).shuffle('a') * 2).a.sum()",
            "((L.repartition(npartitions=1) + 1) * 2).repartition(npartitions=3).abs()",
            "(L[L.a > 0].shuffle('a')[['a', 'c']] + 1).groupby('a').c.sum()",
            "((L + 1)[['a','c']].cumsum() * 2).a",
            # mixed partition counts
            "dx.concat([L + 1, (L * 2)[L.a > 0]])[['a', 'b']].fillna(1)",
            # several passes / nested groups
            "(lambda M: ((M + 1).a + (M * 2).c) * (M.abs().a))(L.fillna(0))",
            "(lambda M: (M.a + M.c).to_frame('s').assign(t=lambda d: d.s * 2))(L.rename(columns={'b': 'bb'}))",
        ]
        # loc / partition selections inside fusable chains need sources with known divisions
        srcK = Src("L", nrows, LCOLS, nparts, how="delayed", cuts=tuple(int(round(i * nrows / nparts)) for i in range(nparts + 1)), divisions=tuple(10 * i for i in range(nparts + 1)))
        for s_ in ("(L + 1).loc[12:25] * 2", "(L + 1).loc[5:] * 2", "((L * 2).loc[:15] + 1).a", "(L.fillna(0) + 1).partitions[[1]] * 2", "((L + 1).loc[12:] - 1).abs()"):
            if nparts >= 2:
                progs.append(Program(s_, [srcK], ordered=True, family="F14", note="loc-in-chain"))
        # an already optimised collection used inside a larger query (nested fused groups, broadcast of an optimised scalar)
        shapes += [
            "(L.a + ((L.c.sum() + 3) + 1) * 2)",
            "(lambda S: (L.a + S) + 1)(((L.c.sum() + 1) * 2).optimize())",
            "(lambda A, B: (A + B) * 2)((L + 1).optimize(), (R[['a', 'b']].repartition(npartitions=L.npartitions) * 2).optimize()[['a', 'b']])" if False else "(lambda A: (A * 2).a + A.c)((L + 1).optimize())",
        ]
        # parquet sources: the reader itself is fused over several files (FusedIO / FusedParquetIO) before the element-wise chain is
        for how in ("parquet", "parquet-arrow"):
            srcP = Src("L", nrows + 2, LCOLS, nparts + 2, how=how)
            for s_ in ("L[['a']] + 1", "(L[['a', 'c']] * 2).c", "(L + 1).fillna(0)", "L.a + L.c", "(L[['c']] + 1).assign(z=lambda d: d.c * 2)", "L[['a']].partitions[[1, 2]] + 1", "(L.a + L.a.sum()) * 2", "L[L.a > 0][['c']] + 1"):
                progs.append(Program(s_, [srcP], ordered=True, family="F14", note=f"{how}/chain"))
        for s in shapes:
            srcs = [srcL, srcR] if "R" in s else [srcL]
            import dask_expr as dx
            ordered = not any(k in s for k in ("shuffle", "merge", "groupby"))
            progs.append(Program(s, srcs, ordered=ordered, family="F14", note="shape", env_globals={"dx": dx}))
    return progs
