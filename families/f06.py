"""F06: programs over sources with *symbolic index labels* (inside declared divisions), for the divisions-truthfulness
obligations of C06 and the end-to-end repartition obligations of C13."""
from __future__ import annotations

from vf.prun import Program, Src
from .f02 import compositions, with_empties

LCOLS = {"a": "i", "b": "f"}
RCOLS = {"a": "i", "e": "i"}

QUERIES = [
    ("L", True), ("L + 1", True), ("L[L.a > 1]", True), ("L.a", True), ("L[['b']].fillna(0)", True),
    ("L.loc[5:25]", True), ("L.loc[:12]", True), ("L.loc[12:]", True), ("L.loc[15:15]", True), ("L.loc[25:5]", True),
    ("L.partitions[[0]]", True), ("L.partitions[[1, 0]]", True), ("L.partitions[[0, 2]]" , True), ("L.partitions[1:]", True),
    ("L.head(2, compute=False)", True), ("L.head(3, npartitions=2, compute=False)", True), ("L.tail(2, compute=False)", True),
    ("L.repartition(divisions=[0, 15, 30])", True), ("L.repartition(divisions=[0, 5, 10, 20, 25, 30])", True), ("L.repartition(divisions=[-5, 12, 40], force=True)", True),
    ("L.repartition(npartitions=1)", True), ("L.repartition(npartitions=2)", True), ("L.repartition(npartitions=5)", True),
    ("L.a + R.a", True), ("L[['a']] + R[['a']]", True), ("L.a.fillna(R.a)" if False else "L.assign(z=R.a)", True),
    ("L.merge(R, left_index=True, right_index=True)", False), ("L.merge(R, left_index=True, right_index=True, how='outer')", False),
    ("L.merge(R, left_index=True, right_index=True, how='left')", False),
    ("dx.concat([L, R])", True), ("dx.concat([L, R], interleave_partitions=True)", False),
    # T starts where L ends (touching ranges: L's last partition holds its upper bound), U lies strictly after L
    ("dx.concat([L, T])", True), ("dx.concat([L[['a']], T[['a']]]).loc[:25]", True), ("dx.concat([L, U])", True), ("dx.concat([L, T], interleave_partitions=True)", False), ("dx.concat([L.a, L.b], axis=1)", True),
    ("L.a.shift(1)", True), ("L.cumsum()", True), ("L.a.diff()", True),
    ("L.reset_index()", True), ("L.index.to_series()", True), ("L.rename(columns={'a': 'x'})", True),
    ("L.set_index('a', divisions=[-100, 0, 100])", False),
    ("L.a.rename('q')", True), ("(L.a + 1).to_frame()", True),
]


def programs(tier):
    import dask_expr as dx

    progs = []
    n = 4 if tier == "quick" else 5
    lays = [c for c in compositions(n) if len(c) - 1 in (1, 2, 3)]
    lays = [c for c in lays if len(c) == 4] + [c for c in lays if len(c) == 3][:2] + [c for c in lays if len(c) == 2]
    lays += with_empties((0, 2, n))[:2]
    if tier == "quick":
        lays = lays[:4] + lays[-2:]
    for text, ordered in QUERIES:
        for cuts in lays:
            nparts = len(cuts) - 1
            if any(t in text for t in ("partitions[[0, 2]]", "npartitions=2, compute")) and nparts < 3 and "0, 2" in text:
                continue
            divs = tuple(10 * i for i in range(nparts + 1))
            srcs = [Src("L", n, LCOLS, nparts, how="delayed", cuts=cuts, divisions=divs)]
            if "R" in text.replace("Repartition", ""):
                srcs.append(Src("R", 3, RCOLS, 2, how="delayed", cuts=(0, 1, 3), divisions=(0, 12, 30)))
            if "T" in text:
                srcs.append(Src("T", 3, LCOLS, 2, how="delayed", cuts=(0, 1, 3), divisions=(divs[-1], divs[-1] + 5, divs[-1] + 9)))
            if "U" in text:
                srcs.append(Src("U", 3, LCOLS, 2, how="delayed", cuts=(0, 1, 3), divisions=(divs[-1] + 1, divs[-1] + 5, divs[-1] + 9)))
            assume = None
            if "set_index('a', divisions=[-100, 0, 100])" in text:
                # the divisions are the user's assertion: assume the data respects them
                assume = lambda env, n_=n: [c for r in range(n_) for c in (env.cell("L", "a", r)[0] >= -100, env.cell("L", "a", r)[0] <= 100)]
            progs.append(Program(text, srcs, ordered=ordered, family="F06", note=text.split("(")[0], env_globals={"dx": dx}, assume=assume))
            if "repartition(npartitions=" in text:
                # integer divisions one apart: the interpolated boundaries of a count-based repartition collapse
                narrow = [Src("L", n, LCOLS, nparts, how="delayed", cuts=cuts, divisions=tuple(range(nparts + 1)))]
                for k in (nparts + 1, nparts + 3):
                    progs.append(Program(f"L.repartition(npartitions={k})", narrow, ordered=ordered, family="F06", note="L.repartition/narrow-divisions", env_globals={"dx": dx}))
    seen, uniq = set(), []
    for p_ in progs:
        if p_.name not in seen:
            seen.add(p_.name)
            uniq.append(p_)
    return uniq


def length_programs(tier):
    """row counts answered from metadata (Len / Size / Lengths rewrites) must equal the computed counts"""
    import dask_expr as dx
    from dask_expr._collection import new_collection
    from dask_expr._reductions import Len
    from dask_expr._expr import Lengths
    from .gen import root, chains, FRAME_OPS

    g = {"dx": dx, "LEN": lambda c: new_collection(Len(c.expr)), "LENGTHS": lambda c: new_collection(Lengths(c.expr))}
    K = {"a": "i", "b": "f", "c": "i"}
    progs = []
    for nrows, nparts in ([(5, 3)] if tier == "quick" else [(5, 3), (4, 2), (6, 4)]):
        L = root("L", K, nparts)
        srcs = [Src("L", nrows, K, nparts)]
        R = Src("R", 3, {"a": "i", "e": "i"}, 2)
        nodes = [n for n in chains(L, 1 if tier == "quick" else 2, ops=["project", "filter", "assign", "arith", "rename", "elem", "reset_index", "dropna", "dedup", "repartition", "shuffle", "head", "cum", "window"]) if n.kind == "frame"]
        # two hash-routing operators in a row (shuffle / drop_duplicates) are beyond the solver budget (nested uninterpreted-hash case splits): bounded out
        nodes = [n for n in nodes if sum(1 for o in n.ops if o.startswith(("shuffle", "drop_duplicates"))) < 2]
        extra = ["L.partitions[[1]]", "L.partitions[[2, 0]]", "(L + 1).partitions[[1, 2]]", "L.a", "L.index", "dx.concat([L, L])", "L.merge(R, on='a')", "L.a.to_frame()", "L[['a']].fillna(1).partitions[[0]]"]
        R2 = Src("R", 4, {"a": "i", "b": "f", "e": "i"}, nparts + 1)
        unaligned = ["dx.concat([L[['a']], R[['e']]], axis=1)", "dx.concat([L[['a']], R[['e']]], axis=1, join='inner')", "dx.concat([R.e, L.a, L.c], axis=1)", "dx.concat([L.a, L.c + 1], axis=1)",
                     "dx.concat([L[L.a > 1][['a']], L[['c']]], axis=1)", "dx.concat([L.b.dropna(), L.a], axis=1)", "dx.concat([L[['c']], L[L.a > 1][['a']]], axis=1, join='inner')",
                     "L[['a']][L.a > 1] + L[['a']]"] + (["L.a[L.a > 1] + L.c"] if (nrows, nparts) == (5, 3) else []) + [  # (open known finding, pinned to one layout)
                     "L.b.fillna(R.b)", "L.a.mask(L.a > 1, R.a)", "L.a.where(L.a > 1, R.e)", "L.a + R.a", "L.assign(z=R.e)", "L[['a']].fillna(R[['a']])"]
        for text in unaligned:
            for wrap in ("LEN({})", "({}).size"):
                progs.append(Program(wrap.format(text), [srcs[0], R2], ordered=False, family="F06-len", note="unaligned/" + ("LEN" if "LEN" in wrap else "size") , env_globals=g))
        # parquet datasets: lengths come from the file statistics (fsspec: plan statistics, arrow: row-group metadata), also under partition
        # selections, column selections and multi-file fused reads
        for how in ("parquet", "parquet-arrow"):
            psrc = [Src("L", nrows + 1, K, nparts + 1, how=how)]
            for text in ["L", "L[['a']]", "L[['c', 'a']]", "L.a", "L.partitions[[1]]", "L.partitions[[2, 0]]", "L[['a']].partitions[[1, 3]]", "L.partitions[[3]][['b']]", "(L + 1)[['c']]", "L[['a']].fillna(1).partitions[[0]]",
                         "L.index", "dx.concat([L[['a']], L[['a']]])", "L[['a', 'c']].assign(z=1)", "L.partitions[[1, 2]].partitions[[1]]"]:
                for wrap in ("LEN({})", "{}.size"):  # the internal Lengths expression is not reachable from the public API for a parquet source
                    progs.append(Program(wrap.format(text), psrc, ordered=False, family="F06-len", note=f"{how}/" + (wrap.split("(")[0].strip("{}.") or "size"), env_globals=g))
        for text in [n.text for n in nodes] + extra:
            s2 = srcs + ([R] if "R," in text or "R)" in text else [])
            for wrap in ("LEN({})", "{}.size", "LENGTHS({})"):
                progs.append(Program(wrap.format(text), s2, ordered=False, family="F06-len", note=wrap.split("(")[0].strip("{}.") or "size", env_globals=g))
    return progs
