"""F02: operator families of C02 x every cut of the rows into partitions (incl. empty partitions), known and unknown
divisions, independent layouts for two-input operations."""
from __future__ import annotations

import itertools

from vf.prun import Program, Src

LCOLS = {"a": "i", "b": "f", "c": "i"}
RCOLS = {"a": "i", "b": "f", "e": "i"}

# (text, ordered, needs: '1' one input | '2' two inputs, requires known divisions?, tag)
QUERIES = [
    ("L.a + L.c", True, 1, None, "elementwise"),
    ("L[(L.a > 1) & (L.b < 2)]", True, 1, None, "elementwise"),
    ("L.assign(z=L.a * 2 - L.c)[['z', 'b']]", True, 1, None, "elementwise"),
    ("L.b.fillna(0) + 1", True, 1, None, "elementwise"),
    ("L[L.b.isna()].a", True, 1, None, "elementwise"),
    ("L.sum()", False, 1, None, "reduction"),
    ("L.a.sum()", False, 1, None, "reduction"),
    ("L.b.mean()", False, 1, None, "reduction"),
    ("L.count()", False, 1, None, "reduction"),
    ("L.b.min()", False, 1, None, "reduction"),
    ("L.max()", False, 1, None, "reduction"),
    ("L[L.a > 0].b.sum()", False, 1, None, "reduction"),
    ("L.a.nunique()", False, 1, None, "reduction"),
    ("L.size", False, 1, None, "reduction"),
    ("(L.a > 1).any()", False, 1, None, "reduction"),
    ("(L.a > 1).all()", False, 1, None, "reduction"),
    ("L.mean()", False, 1, None, "reduction"),
    ("L.groupby('a').c.sum()", False, 1, None, "groupby"),
    ("L.groupby('a').b.mean()", False, 1, None, "groupby"),
    ("L.groupby('a').count()", False, 1, None, "groupby"),
    ("L.groupby('a').c.max()", False, 1, None, "groupby"),
    ("L.groupby('a').size()", False, 1, None, "groupby"),
    ("L.groupby('a').b.sum(split_out=2)", False, 1, None, "groupby"),
    ("L.groupby('a').b.var()", False, 1, None, "groupby"),
    ("L.groupby('a').c.std(split_every=2)", False, 1, None, "groupby"),
    ("L.groupby('a').agg({'c': 'sum', 'b': 'mean'})", False, 1, None, "groupby-agg"),
    ("L.groupby('a').c.agg(['sum', 'count'], split_every=2)", False, 1, None, "groupby-agg"),
    ("L.groupby('a').agg({'c': ['sum', 'max']}, split_out=2)", False, 1, None, "groupby-agg"),
    ("L.groupby('b', dropna=False).c.sum()", False, 1, None, "groupby-dropna"),
    ("L.groupby('b', dropna=False).c.mean(split_every=2)", False, 1, None, "groupby-dropna"),
    ("L.groupby('b', dropna=False).size(split_out=2)", False, 1, None, "groupby-dropna"),
    ("L.groupby('b', dropna=False).c.var(split_every=2)", False, 1, None, "groupby-dropna"),
    ("L.groupby('b', dropna=False).agg({'c': 'sum'}, split_every=2)", False, 1, None, "groupby-dropna"),
    ("L.groupby('b', dropna=False).c.agg(['max', 'count'], split_every=2)", False, 1, None, "groupby-dropna"),
    ("L.groupby('b', dropna=True).c.sum(split_every=2)", False, 1, None, "groupby-dropna"),
    ("L.merge(R, on='a')", False, 2, None, "join"),
    ("L.merge(R, on='a', how='left')", False, 2, None, "join"),
    ("L.merge(R, on='a', how='right')", False, 2, None, "join"),
    ("L.merge(R, on='a', how='outer')", False, 2, None, "join"),
    ("L.merge(R, left_on='c', right_on='e', how='inner')", False, 2, None, "join"),
    ("L.merge(R, left_index=True, right_index=True)", False, 2, None, "join-index"),
    ("L.merge(R, left_index=True, right_index=True, how='outer')", False, 2, None, "join-index"),
    ("L.merge(R, left_index=True, right_index=True, how='left')", False, 2, None, "join-index"),
    ("dx.concat([L, R])", True, 2, None, "concat"),
    ("dx.concat([L[['a']], R[['a', 'e']]])", True, 2, None, "concat"),
    ("dx.concat([L.a, R.a])", True, 2, None, "concat"),
    ("L.set_index('a', divisions=[-100, 0, 100])", False, 1, None, "set_index"),
    ("L.set_index('c', divisions=[-5, 1, 2, 5]).b", False, 1, None, "set_index"),
    # head / tail of an indexed frame are rewritten into an n-smallest / n-largest selection: the options of set_index have to survive
    ("L.set_index('a', drop=False, divisions=[-100, 0, 100]).head(2, compute=False)", False, 1, None, "set_index-head"),
    ("L.set_index('a', drop=False, divisions=[-100, 0, 100]).tail(2, compute=False)", False, 1, None, "set_index-head"),
    ("L.set_index('a', divisions=[-100, 0, 100]).head(3, compute=False)", False, 1, None, "set_index-head"),
    ("L.a.cumsum()", True, 1, None, "cumulative"),
    ("L.cumsum()", True, 1, None, "cumulative-known"),
    ("L.cummin()", True, 1, None, "cumulative-known"),
    ("L[['a', 'c']].cumsum()", True, 1, None, "cumulative"),
    ("L[['c']].cummax()", True, 1, None, "cumulative"),
    ("L.b.cummax()", True, 1, None, "cumulative"),
    ("L.b.cumsum()", True, 1, None, "cumulative"),
    ("L[['a', 'c']].cummin()", True, 1, None, "cumulative"),
    ("L[L.a > 0][['a', 'c']].cumsum()", True, 1, None, "cumulative"),
    ("L[L.a > 0].b.cummin()", True, 1, None, "cumulative"),
    ("L.a.shift(1)", True, 1, None, "window"),
    ("L.shift(-1)", True, 1, None, "window"),
    ("L.b.diff()", True, 1, None, "window"),
    ("L.b.ffill()", True, 1, None, "window"),
    ("L.b.bfill()", True, 1, None, "window"),
    ("L.a.shift(2)", True, 1, None, "window"),
    ("L.rolling(2).sum()", True, 1, None, "window"),
    ("L.b.rolling(2, min_periods=1).mean()", True, 1, None, "window"),
    ("L.rolling(2).max()[['c', 'a']]", True, 1, None, "window"),
    ("(lambda r: r.a + r.c)(L.rolling(2).count())", True, 1, None, "window"),
    ("L.a + R.a", True, 2, True, "align"),
    ("L[['a', 'b']] + R[['a', 'b']]", True, 2, True, "align"),
    ("L.a + R.a", False, 2, False, "align-shuffle"),
    ("L.drop_duplicates(subset=['a'])", False, 1, None, "dedup"),
    ("L.drop_duplicates()", False, 1, None, "dedup"),
    ("L.a.unique()", False, 1, None, "dedup"),
    ("L.a.value_counts()", False, 1, None, "dedup"),
    ("L.b.value_counts(normalize=True)", False, 1, None, "dedup"),
    ("L.b.value_counts(normalize=True, split_out=1)", False, 1, None, "dedup"),
    ("L.a.value_counts(normalize=True, split_out=2)", False, 1, None, "dedup"),
    ("L.nlargest(2, 'a')", False, 1, None, "nlargest"),
    ("L.a.nsmallest(2)", False, 1, None, "nlargest"),
    ("L.nlargest(2, 'b')", False, 1, None, "nlargest"),
    ("L.loc[5:15]", True, 1, True, "loc"),
    ("L.loc[:12]", True, 1, True, "loc"),
    ("L.loc[5:15, ['a']]", True, 1, True, "loc"),
    ("L.loc[12:]", True, 1, True, "loc"),
    ("L.head(3, npartitions=-1, compute=False)", True, 1, None, "head"),
    ("L.repartition(npartitions=2).a", True, 1, None, "repartition"),
    ("L.sort_values('a')", False, 0, None, "sort-1part"),
    # tail / head of a sort are rewritten into n-last / n-first selections (no quantiles involved): a tree reduction again
    ("L.sort_values('a').tail(2, compute=False).c", False, 1, False, "sort-tail"),
    ("L.sort_values('a').head(2, compute=False).c", False, 1, False, "sort-tail"),
    ("L.sort_values('a', ascending=False).tail(1, compute=False)", False, 1, False, "sort-tail"),
    ("L.nsmallest(2, 'c')", False, 1, None, "nlargest"),
]


def compositions(n):
    """all ways of cutting n rows into consecutive non-empty partitions"""
    out = []
    for k in range(n):
        for cutset in itertools.combinations(range(1, n), k):
            out.append((0,) + cutset + (n,))
    return out


def with_empties(cuts):
    out = []
    for pos in range(len(cuts)):
        out.append(cuts[:pos + 1] + (cuts[pos],) + cuts[pos + 1:])
    return out


def layouts(n, tier):
    base = compositions(n)
    extra = []
    for c in base:
        if len(c) in (2, 3):
            extra += with_empties(c)
    extra = extra if tier != "quick" else extra[::2]
    return base + extra


def region_allnan_partition(env, prog):
    """known finding C02-frame-cumulative-allnan: a non-final, non-empty partition whose float column is all NaN"""
    import z3

    terms = []
    for s in prog.srcs:
        if s.how == "pandas":
            import dask_expr as dx

            cuts = tuple(int(x) for x in dx.from_pandas(env.sources[s.name]["frame"], npartitions=s.npart, sort=s.sort).expr._locations())
        else:
            cuts = s.cuts or tuple(int(round(i * s.nrows / s.npart)) for i in range(s.npart + 1))
        for col, kind in s.kinds.items():
            if kind != "f":
                continue
            for a, b in list(zip(cuts, cuts[1:]))[:-1]:
                if b > a:
                    terms.append(z3.And(*[env.cell(s.name, col, r)[1] for r in range(a, b)]))
    return z3.Or(*terms) if terms else z3.BoolVal(False)


KNOWN_CUM = ("C02-frame-cumulative-allnan", region_allnan_partition)


def _src(name, cols, n, cuts, known):
    nparts = len(cuts) - 1
    divs = tuple(10 * i for i in range(nparts + 1)) if known else None
    return Src(name, n, cols, nparts, how="delayed", cuts=cuts, divisions=divs)


def _distinct_keys(env):
    """sort_values is not stable by default: which of two rows with equal keys comes first is unspecified, so the sort keys are assumed distinct"""
    import z3

    vals = [t[4] for t in env.tags.values() if t[0] == "L" and t[1] == "a"]
    return [z3.Distinct(*vals)] if len(vals) > 1 else []


def programs(tier):
    import dask_expr as dx

    progs = []
    n = 4 if tier == "quick" else 5
    lays = layouts(n, tier)
    rl = [(0, 3), (0, 1, 3), (0, 2, 2, 3)] if tier == "quick" else [(0, 3), (0, 1, 3), (0, 2, 3), (0, 1, 2, 3), (0, 0, 3), (0, 2, 2, 3)]
    for text, ordered, arity, needs_known, tag in QUERIES:
        if arity == 0:
            progs.append(Program(text, [Src("L", n, LCOLS, 1)], ordered=ordered, family="F02", note=tag, env_globals={"dx": dx}))
            continue
        knowns = [True, False] if needs_known is None else [needs_known]
        if tag in ("loc",):
            knowns = [True]
        for known in knowns:
            use = lays if (tier != "quick" or tag in ("window", "cumulative", "align", "loc", "head")) else lays[::2]
            for ci, cuts in enumerate(use):
                srcs = [_src("L", LCOLS, n, cuts, known)]
                if arity == 2:
                    rc = rl[ci % len(rl)]
                    srcs.append(_src("R", RCOLS, 3, rc, known))
                progs.append(Program(text, srcs, ordered=ordered, family="F02", note=f"{tag}/{'known' if known else 'unknown'}", env_globals={"dx": dx},
                                     known=None, assume=_distinct_keys if tag == "sort-tail" else None))
        # more partitions than the default split_every (8): the reduction tree gets a combine level between chunk and aggregate
        # (group-by / unique / value_counts terms over nine rows are beyond the solver budget: their deep trees are C10's split_every=2 grids)
        if tag in ("nlargest", "set_index-head", "reduction", "sort-tail") and arity == 1 and "nunique" not in text:
            deep = tuple(range(10))  # nine single-row partitions
            progs.append(Program(text, [_src("L", LCOLS, 9, deep, False)], ordered=ordered, family="F02", note=f"{tag}/deep-tree", env_globals={"dx": dx}, known=None,
                                 assume=_distinct_keys if tag == "sort-tail" else None))
        # from_pandas layouts as well (sorted concrete index)
        for nparts in (1, 2, 3):
            srcs = [Src("L", n, LCOLS, nparts)] + ([Src("R", 3, RCOLS, max(1, nparts - 1))] if arity == 2 else [])
            if tag in ("loc",):
                continue
            progs.append(Program(text, srcs, ordered=ordered, family="F02", note=f"{tag}/from_pandas", env_globals={"dx": dx},
                                 known=None, assume=_distinct_keys if tag == "sort-tail" else None))
    return progs
