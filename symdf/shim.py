"""Reference-side stand-ins: `dx` for symbolic whole tables, and a pandas adapter that accepts the dask-only
keyword arguments of a program text (used to replay a program on real pandas)."""
from __future__ import annotations

import pandas as pd

from .frame import sym_concat

DASK_ONLY_KW = {"compute", "npartitions", "split_every", "split_out", "shuffle_method", "broadcast", "divisions", "upsample", "partition_size", "sort_function",
                "sort_function_kwargs", "interleave_partitions", "ignore_unknown_divisions", "meta", "shuffle", "force"}


class SymDX:
    @staticmethod
    def concat(dfs, axis=0, join="outer", ignore_index=False, **kw):
        return sym_concat(list(dfs), axis=axis, join=join, ignore_index=ignore_index)


class Pd:
    """wraps a pandas object; forwards everything to pandas after removing dask-only keywords"""

    def __init__(self, obj):
        object.__setattr__(self, "_o", obj)

    @staticmethod
    def wrap(x):
        if isinstance(x, (pd.DataFrame, pd.Series, pd.Index)) or type(x).__module__.startswith("pandas.core.groupby"):
            return Pd(x)
        return x

    @staticmethod
    def unwrap(x):
        if isinstance(x, Pd):
            return x._o
        if isinstance(x, list):
            return [Pd.unwrap(i) for i in x]
        if isinstance(x, tuple):
            return tuple(Pd.unwrap(i) for i in x)
        if isinstance(x, dict):
            return {k: Pd.unwrap(v) for k, v in x.items()}
        if callable(x) and not isinstance(x, type):
            return lambda *a, **k: Pd.unwrap(x(*[Pd.wrap(i) for i in a], **k))
        return x

    def __getattr__(self, name):
        o = self._o
        if name in ("repartition", "persist", "shuffle", "optimize") and isinstance(o, (pd.DataFrame, pd.Series)):
            if name == "shuffle":
                return lambda *a, ignore_index=False, **k: Pd(o.reset_index(drop=True) if ignore_index else o)
            return lambda *a, **k: Pd(o)
        attr = getattr(o, name)
        if callable(attr) and not isinstance(attr, (pd.DataFrame, pd.Series, pd.Index)) and not type(attr).__name__.endswith("Indexer"):
            def call(*a, **k):
                extra = {kk: vv for kk, vv in k.items() if kk in DASK_ONLY_KW}
                k = {kk: Pd.unwrap(vv) for kk, vv in k.items() if kk not in DASK_ONLY_KW}
                a = [Pd.unwrap(i) for i in a]
                out = attr(*a, **k)
                if name == "set_index" and ("divisions" in extra or "npartitions" in extra) and isinstance(out, pd.DataFrame):
                    out = out.sort_index(kind="stable")
                if name == "sort_values" and isinstance(out, (pd.DataFrame, pd.Series)):
                    pass
                if name == "unique" and not isinstance(out, (pd.Series, pd.DataFrame)):
                    out = pd.Series(out, name=getattr(o, "name", None))
                return Pd.wrap(out)

            return call
        if type(attr).__name__.endswith("Indexer"):
            return _PdIndexer(attr)
        return Pd.wrap(attr)

    def __getitem__(self, key):
        return Pd.wrap(self._o[Pd.unwrap(key)])

    def __len__(self):
        return len(self._o)

    def __invert__(self):
        return Pd.wrap(~self._o)

    def __neg__(self):
        return Pd.wrap(-self._o)

    def __abs__(self):
        return Pd.wrap(abs(self._o))


class _PdIndexer:
    def __init__(self, ix):
        self.ix = ix

    def __getitem__(self, key):
        return Pd.wrap(self.ix[Pd.unwrap(key)])


def _binop(name):
    def f(self, other):
        return Pd.wrap(getattr(self._o, name)(Pd.unwrap(other)))

    return f


for _n in ("add", "sub", "mul", "truediv", "floordiv", "mod", "pow", "lt", "le", "gt", "ge", "eq", "ne", "and", "or", "xor",
           "radd", "rsub", "rmul", "rtruediv", "rand", "ror"):
    setattr(Pd, f"__{_n}__", _binop(f"__{_n}__"))
Pd.__hash__ = lambda self: id(self)


class PdDX:
    @staticmethod
    def concat(dfs, axis=0, join="outer", ignore_index=False, **kw):
        return Pd(pd.concat([Pd.unwrap(d) for d in dfs], axis=axis, join=join, ignore_index=ignore_index))
