"""Tag sources and the symbolic graph interpreter (dask.core.get semantics over SymFrames)."""
from __future__ import annotations

import functools
import operator

import numpy as np
import pandas as pd
import z3
from dask.utils import apply, methodcaller

from . import core
from .core import Cell, Col, F, I, Idx, T, SymBase, SymScalar, Unsupported, StructuralError
from .frame import SymFrame, SymSeries, SymIndex

TAG_BASE = 10 ** 9


class Env:
    """Registry of symbolic source cells.  Sources are ordinary pandas *tag frames*: cell (row r, column c) of
    source s holds the unique integer TAG_BASE * (16 * s + c + 1) + r, which the interpreter replaces by the z3
    variables of that cell whenever a tagged pandas object surfaces in a task."""

    def __init__(self):
        self.tags = {}  # tag -> (src, col label, row, kind, val var, null term)
        self.sources = {}  # src name -> dict(frame=tag frame, kinds, nrows, sid)
        self.row_valid = {}  # (src, row) -> Bool var (only for sources with optional rows)
        self.idx_tags = {}  # tag -> (src, row, Int var)
        self.constraints = []
        self.vars = []

    def source(self, name, nrows, kinds: dict, index=None, index_name=None, nullable=True, optional_rows=False, sym_index=None):
        """kinds: column label -> 'i' | 'f'.  index: list of concrete ints (default 0..n-1).
        sym_index: list of (lo, hi, last) ranges per row -> index labels become symbolic Ints constrained to the
        range (used with sources that declare divisions)."""
        sid = len(self.sources) + 1
        data = {}
        for ci, (col, kind) in enumerate(kinds.items()):
            base = TAG_BASE * (16 * sid + ci + 1)
            tags = [base + r for r in range(nrows)]
            for r, t in enumerate(tags):
                v = z3.Int(f"{name}.{col}[{r}]")
                n = z3.Bool(f"{name}.{col}[{r}].isna") if (kind == "f" and nullable) else F
                self.tags[t] = (name, col, r, kind, v, n)
                self.vars.append(v)
                if n is not F:
                    self.vars.append(n)
            data[col] = np.array(tags, dtype="int64" if kind == "i" else "float64")
        if sym_index is not None:
            base = TAG_BASE * (16 * sid)
            itags = [base + r for r in range(nrows)]
            for r, t in enumerate(itags):
                v = z3.Int(f"{name}.index[{r}]")
                self.idx_tags[t] = (name, r, v)
                self.vars.append(v)
            idx = pd.Index(itags, dtype="int64", name=index_name)
        elif index is not None:
            idx = pd.Index(list(index), dtype="int64", name=index_name)
        else:
            idx = pd.RangeIndex(nrows, name=index_name)
        frame = pd.DataFrame(data, index=idx)
        if optional_rows:
            for r in range(nrows):
                b = z3.Bool(f"{name}.row[{r}].present")
                self.row_valid[(name, r)] = b
                self.vars.append(b)
        self.sources[name] = dict(frame=frame, kinds=dict(kinds), nrows=nrows, sid=sid, sym_index=sym_index is not None)
        return frame

    def assume(self, *cs):
        self.constraints.extend(cs)

    def cell(self, src, col, row):
        """(value var, null term) of a source cell"""
        t = int(self.sources[src]["frame"][col].iloc[row])
        return self.tags[t][4], self.tags[t][5]

    # ---- conversion of tagged pandas literals
    def has_tags(self, obj):
        try:
            if isinstance(obj, pd.DataFrame):
                if obj.shape[1] == 0 or len(obj) == 0:
                    return self._index_tagged(obj.index)
                for c in range(obj.shape[1]):
                    col = obj.iloc[:, c]
                    if col.dtype.kind in "if" and len(col) and self._is_tag(col.iloc[0]):
                        return True
                return self._index_tagged(obj.index)
            if isinstance(obj, pd.Series):
                if len(obj) and obj.dtype.kind in "if" and self._is_tag(obj.iloc[0]):
                    return True
                return self._index_tagged(obj.index)
        except Exception:
            return False
        return False

    def _is_tag(self, v):
        try:
            return int(v) in self.tags and float(v) == int(v)
        except (TypeError, ValueError, OverflowError):
            return False

    def _index_tagged(self, idx):
        try:
            return len(idx) > 0 and idx.dtype.kind == "i" and int(idx[0]) in self.idx_tags
        except Exception:
            return False

    def _col(self, values):
        vals, nulls, kinds, rows = [], [], set(), []
        for x in values:
            if self._is_tag(x):
                src, col, r, kind, v, n = self.tags[int(x)]
                vals.append(v)
                nulls.append(n)
                kinds.add(kind)
                rows.append((src, r))
            elif isinstance(x, (bool, np.bool_)):
                raise Unsupported("bool literal column")
            elif x != x:
                vals.append(z3.IntVal(0))
                nulls.append(T)
                kinds.add("f")
                rows.append(None)
            else:
                vals.append(I(x.item() if hasattr(x, "item") else x))
                nulls.append(F)
                kinds.add("f" if isinstance(x, (float, np.floating)) else "i")
                rows.append(None)
        kind = "f" if "f" in kinds else "i"
        return Col(kind, vals, nulls), rows

    def _index(self, idx, n):
        if isinstance(idx, pd.MultiIndex):
            raise Unsupported("MultiIndex literal")
        if idx.dtype.kind not in "iu":
            if n == 0:
                return Idx([], idx.name, True), []
            raise Unsupported(f"index dtype {idx.dtype}")
        vals, rows = [], []
        for x in idx:
            x = int(x)
            if x in self.idx_tags:
                src, r, v = self.idx_tags[x]
                vals.append(v)
                rows.append((src, r))
            else:
                vals.append(z3.IntVal(x))
                rows.append(None)
        return Idx(vals, idx.name, True), rows

    def convert(self, obj):
        """pandas literal with tags -> SymFrame / SymSeries"""
        n = len(obj)
        index, irows = self._index(obj.index, n)
        if isinstance(obj, pd.Series):
            col, rows = self._col(obj.values)
            prov = self._prov([rows], irows, n, index)
            return SymSeries(obj.name, col, self._valid(prov), index, prov)
        cols, allrows = [], []
        for ci in range(obj.shape[1]):
            s = obj.iloc[:, ci]
            if s.dtype.kind not in "if":
                raise Unsupported(f"literal column dtype {s.dtype}")
            col, rows = self._col(s.values)
            cols.append((obj.columns[ci], col))
            allrows.append(rows)
        prov = self._prov(allrows, irows, n, index)
        return SymFrame(cols, self._valid(prov), index, prov)

    def _prov(self, colrows, irows, n, index):
        prov = []
        for r in range(n):
            ids = {rows[r] for rows in colrows if rows[r] is not None}
            if irows and irows[r] is not None:
                ids.add(irows[r])
            if len(ids) == 1:
                prov.append(ids.pop())
            elif not ids:
                prov.append(("lit", str(index.vals[r])))
            else:
                raise Unsupported("literal row mixes cells of different source rows")
        return prov

    def _valid(self, prov):
        return [self.row_valid.get(p, T) for p in prov]


# ---------------------------------------------------------------------------------------------- interpreter

MODELS = {}  # function identity -> model(interp, *args, **kwargs)


def model(*fns):
    def deco(m):
        for f in fns:
            MODELS[f] = m
        return m

    return deco


def has_sym(x, depth=0):
    if isinstance(x, SymBase):
        return True
    if depth > 4:
        return False
    if isinstance(x, (list, tuple)):
        return any(has_sym(i, depth + 1) for i in x)
    if isinstance(x, dict):
        return any(has_sym(i, depth + 1) for i in x.values())
    return False


def istask(t):
    return type(t) is tuple and len(t) > 0 and callable(t[0])


class GraphError(Exception):
    """C09 structure violated: undefined key / cycle / planner object inside a task"""


def fingerprint(x, depth=0):
    """Identity of the parts of a task argument that a task must leave alone (C05): symbolic containers are mutable python
    objects here (SymFrame.__setitem__, `.columns = `, `.index.name = ` change them in place, as pandas does), so a task
    that modifies an argument changes this value.  Dict literals (the private sub-graph of a fused task) are not data
    received from another task and are skipped."""
    from .frame import SymFrame, SymSeries, SymIndex

    if isinstance(x, SymFrame):
        return ("F", tuple(map(repr, x.labels)), tuple(id(c) for _, c in x.cols), id(x.index_), repr(x.index_.name), tuple(id(v) for v in x.valid))
    if isinstance(x, SymSeries):
        return ("S", repr(x.name), id(x.col), id(x.index_), repr(x.index_.name), tuple(id(v) for v in x.valid))
    if isinstance(x, SymIndex):
        return ("I", id(x.idx), repr(x.idx.name), tuple(id(v) for v in x.valid))
    if isinstance(x, pd.DataFrame):
        return ("PF", tuple(map(repr, x.columns)), tuple(map(repr, x.index.names)), x.shape, tuple(map(str, x.dtypes)))
    if isinstance(x, pd.Series):
        return ("PS", repr(x.name), tuple(map(repr, x.index.names)), x.shape, str(x.dtype))
    if isinstance(x, (list, tuple)) and depth < 4:
        return tuple(fingerprint(i, depth + 1) for i in x)
    return None


class Interp:
    track_mutation = False  # C05: compare fingerprint(args) before / after every task call
    reverse = False  # C05: evaluate arguments and list elements right to left (an adversarial dependency-respecting order)

    def __init__(self, dsk, env: Env, parent=None):
        self.dsk, self.env, self.memo, self.parent = dsk, env, {}, parent
        self.active = set()
        self.calls = []  # names of callables executed (for evidence)
        self.mutations = parent.mutations if parent is not None else []  # (callable name, argument position) pairs

    def iskey(self, x):
        try:
            return x in self.dsk
        except TypeError:
            return False

    def get(self, key):
        if key in self.memo:
            return self.memo[key]
        if key in self.active:
            raise GraphError(f"cycle through key {key!r}")
        self.active.add(key)
        try:
            val = self.ev(self.dsk[key])
        finally:
            self.active.discard(key)
        self.memo[key] = val
        return val

    def lit(self, x, positional=True):
        if isinstance(x, (pd.DataFrame, pd.Series)):
            if self.env.has_tags(x):
                return self.env.convert(x)
            if positional and len(x) == 0:
                # an empty partition of a source (or an empty meta used as data): zero slots
                from .frame import _from_empty_pandas

                return _from_empty_pandas(x)
        return x

    def ev(self, t):
        if istask(t):
            f, args = t[0], t[1:]
            if f is apply:
                fn = args[0]
                a = self.ev(args[1]) if len(args) > 1 else []
                kw = self.ev(args[2]) if len(args) > 2 else {}
                if not isinstance(kw, dict):
                    kw = dict(kw)
                return self.call(fn, list(a), {k: self.lit(v, positional=False) for k, v in kw.items()})
            if self.reverse:
                return self.call(f, [self.ev(a) for a in reversed(args)][::-1], {})
            return self.call(f, [self.ev(a) for a in args], {})
        if type(t) is list:
            if self.reverse:
                return [self.ev(x) for x in reversed(t)][::-1]
            return [self.ev(x) for x in t]
        if self.iskey(t):
            return self.get(t)
        if type(t) is tuple and len(t) == 2 and isinstance(t[0], str) and isinstance(t[1], int) and not self.iskey(t):
            # looks like a collection key but is not defined: C09 (closedness)
            if "-" in t[0]:
                raise GraphError(f"task references undefined key {t!r}")
        return self.lit(t)

    def call(self, f, a, kw):
        if not self.track_mutation:
            return self._call(f, a, kw)
        a = list(a)
        before = [fingerprint(x) for x in a] + [fingerprint(v) for v in kw.values()]
        held = list(a) + list(kw.values())
        out = self._call(f, a, kw)
        after = [fingerprint(x) for x in held]
        for i, (b, c) in enumerate(zip(before, after)):
            if b != c:
                self.mutations.append((getattr(f, "__qualname__", None) or getattr(f, "__name__", None) or repr(f), i))
        return out

    def _call(self, f, a, kw):
        self.calls.append(getattr(f, "__qualname__", None) or getattr(f, "__name__", None) or repr(f))
        try:
            m = MODELS.get(f)
        except TypeError:
            m = None
        if m is not None and (has_sym(a) or has_sym(kw) or getattr(m, "always", False)):
            return m(self, *a, **kw)
        if isinstance(f, methodcaller):
            if a and isinstance(a[0], SymBase):
                try:
                    meth = getattr(a[0], f.method)
                except AttributeError:
                    raise Unsupported(f"{type(a[0]).__name__}.{f.method} is not modelled")
                return meth(*a[1:], **kw)
            return f(*a, **kw)
        if isinstance(f, functools.partial):
            return self.call(f.func, list(f.args) + list(a), {**f.keywords, **kw})
        if f in (pd.Series, pd.DataFrame) and has_sym(a):
            return _construct(f, *a, **kw)
        if has_sym(a) and self.env is not None:
            # a concrete pandas operand next to symbolic ones (e.g. a source partition whose selected part holds no tagged cell,
            # such as its index alone): lift it into the model so that both sides speak about the same rows
            lifted = []
            for x in a:
                if isinstance(x, (pd.DataFrame, pd.Series)) and len(x):
                    try:
                        x = self.env.convert(x)
                    except Unsupported:
                        pass
                elif isinstance(x, pd.Index) and len(x) and not isinstance(x, pd.MultiIndex):
                    try:
                        x = self.env.convert(x.to_series()).index
                    except Exception:
                        pass
                lifted.append(x)
            a = lifted
        try:
            out = f(*a, **kw)
            if isinstance(out, (pd.DataFrame, pd.Series)) and self.env is not None and self.env.has_tags(out):
                out = self.env.convert(out)  # e.g. FromArray builds its partitions from tagged ndarrays at run time
            return out
        except (KeyError, IndexError) as e:
            if has_sym(a) or has_sym(kw):
                raise StructuralError(f"{getattr(f, '__name__', f)}: {type(e).__name__}: {e}")
            raise
        except (TypeError, AttributeError) as e:
            if has_sym(a) or has_sym(kw):
                raise Unsupported(f"{getattr(f, '__qualname__', f)} on symbolic arguments: {type(e).__name__}: {e}")
            raise


def _construct(cls, data=None, index=None, dtype=None, name=None, **kw):
    from .frame import SymLabelSeries
    from .core import lit_cell

    if cls is pd.Series and isinstance(data, list) and index is not None:
        return SymLabelSeries(list(index), [lit_cell(x) for x in data], name)
    raise Unsupported(f"constructing {cls.__name__} from symbolic values")


def check_graph(dsk, keys):
    """C09 loader assertions: output keys defined, no planner objects in tasks (closedness and cycles are
    detected lazily by the interpreter, which raises GraphError)."""
    from dask_expr._core import Expr

    problems = []
    for k in keys:
        if k not in dsk:
            problems.append(f"output key {k!r} not defined")

    def scan(t, key, depth=0):
        if depth > 50:
            return
        if isinstance(t, Expr) or hasattr(t, "__dask_graph__") and hasattr(t, "expr"):
            problems.append(f"planner object {type(t).__name__} embedded in task {key!r}")
        elif isinstance(t, (list, tuple)):
            for x in t:
                scan(x, key, depth + 1)
        elif isinstance(t, dict):
            for x in t.values():
                scan(x, key, depth + 1)

    for k, t in dsk.items():
        scan(t, k)
    return problems


def run_graph(expr, env: Env):
    """Execute the real task graph of a (lowered) expression symbolically -> list of partition values"""
    dsk = expr.__dask_graph__()
    keys = expr.__dask_keys__()
    probs = check_graph(dsk, keys)
    if probs:
        raise GraphError("; ".join(probs[:3]))
    it = Interp(dsk, env)
    out = [it.get(k) for k in reversed(keys)][::-1] if Interp.reverse else [it.get(k) for k in keys]
    # a partition computed from concrete data only (e.g. the labels of a RangeIndex) comes back as a pandas object
    for i, v in enumerate(out):
        if isinstance(v, np.generic):
            out[i] = v.item()  # a scalar computed from concrete data only
        elif isinstance(v, (pd.DataFrame, pd.Series)) and len(v):
            try:
                out[i] = env.convert(v)
            except Unsupported:
                pass
        elif isinstance(v, pd.Index) and not isinstance(v, pd.MultiIndex) and v.dtype.kind in "iu":
            try:
                out[i] = env.convert(pd.Series(0, index=v)).index  # the labels of a source whose index is concrete (e.g. a parquet dataset)
            except Unsupported:
                pass
    return out, it
