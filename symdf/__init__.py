from . import core, frame, interp, models  # noqa
