"""Symbolic partitions: duck-typed stand-ins for pandas objects whose cells are z3 terms.

A partition is a fixed list of row *slots*; slot r has a `valid` Bool (is the row present), an index label, one
(val, null) pair per column and a concrete provenance id.  Filters switch `valid` off, they never delete slots, so
the slot count (the bound) is concrete while row counts are symbolic.  Row order is slot order unless `order`
(a per-slot lexicographic sort key) is set.

Numbers are mathematical integers (z3 Int); float columns are restricted to integer values or NaN (null flag);
`/`, `//`, `%`, `**` and sqrt are uninterpreted functions.  Booleans are z3 Bools.
"""
from __future__ import annotations

import operator
from collections import OrderedDict

import z3

T = z3.BoolVal(True)
F = z3.BoolVal(False)


class Unsupported(Exception):
    """The model has no encoding for this operation: the program is skipped and reported as not covered."""


class ModelledMisalignment(Exception):
    """pandas would have to align two differently filtered operands whose index has duplicate labels (cartesian
    reindexing / errors).  Raised as a *candidate* failure on that path; only a concrete replay makes it a verdict."""


class StructuralError(Exception):
    """A task failed for every input (missing / duplicated column, bad key): data-independent failure."""


class MissingLabel(StructuralError, KeyError):
    """a missing column / label: pandas raises KeyError, which real code may catch"""

    def __str__(self):
        return self.args[0] if self.args else ""


# ---------------------------------------------------------------------------------------------- term helpers

def is_t(x):
    return z3.is_true(x)


def is_f(x):
    return z3.is_false(x)


def And(*xs):
    out = []
    for x in xs:
        if isinstance(x, (list, tuple)):
            x = And(*x)
        if x is True or is_t(x):
            continue
        if x is False or is_f(x):
            return F
        out.append(x)
    if not out:
        return T
    return out[0] if len(out) == 1 else z3.And(*out)


def Or(*xs):
    out = []
    for x in xs:
        if isinstance(x, (list, tuple)):
            x = Or(*x)
        if x is False or is_f(x):
            continue
        if x is True or is_t(x):
            return T
        out.append(x)
    if not out:
        return F
    return out[0] if len(out) == 1 else z3.Or(*out)


def Not(x):
    if x is True or is_t(x):
        return F
    if x is False or is_f(x):
        return T
    return z3.Not(x)


def If(c, a, b):
    if c is True or is_t(c):
        return a
    if c is False or is_f(c):
        return b
    if a is b or (hasattr(a, "eq") and hasattr(b, "eq") and a.eq(b)):
        return a
    return z3.If(c, a, b)


def I(x):
    """coerce to a z3 Int term"""
    if isinstance(x, bool):
        return z3.IntVal(1 if x else 0)
    if isinstance(x, int):
        return z3.IntVal(x)
    if isinstance(x, float):
        if x != x:
            raise Unsupported("NaN literal as a value")
        if x != int(x):
            raise Unsupported(f"non-integral float literal {x}")
        return z3.IntVal(int(x))
    if z3.is_bool(x):
        return If(x, z3.IntVal(1), z3.IntVal(0))
    if z3.is_expr(x):
        return x
    try:
        import numpy as np

        if isinstance(x, np.integer):
            return z3.IntVal(int(x))
        if isinstance(x, np.floating):
            return I(float(x))
        if isinstance(x, np.bool_):
            return I(bool(x))
    except ImportError:
        pass
    raise Unsupported(f"cannot use {type(x).__name__} as a numeric value")


def B(x):
    if isinstance(x, bool):
        return T if x else F
    if z3.is_bool(x):
        return x
    try:
        import numpy as np

        if isinstance(x, np.bool_):
            return T if bool(x) else F
    except ImportError:
        pass
    raise Unsupported(f"cannot use {type(x).__name__} as a boolean value")


def Sum(xs):
    xs = [x for x in xs if not (z3.is_int_value(x) and x.as_long() == 0)]
    if not xs:
        return z3.IntVal(0)
    return xs[0] if len(xs) == 1 else z3.Sum(xs)


_UF = {}


def uf(name, *args):
    key = (name, len(args))
    if key not in _UF:
        _UF[key] = z3.Function(name, *([z3.IntSort()] * len(args)), z3.IntSort())
    return _UF[key](*[I(a) for a in args])


def is_nan(x):
    return isinstance(x, float) and x != x


def is_null_literal(x):
    if x is None or is_nan(x):
        return True
    try:
        import pandas as pd

        return x is pd.NA or x is pd.NaT
    except ImportError:
        return False


# ---------------------------------------------------------------------------------------------- cells

class Cell:
    """one value: kind in 'i' (int), 'f' (float restricted to integers/NaN), 'b' (bool)"""

    __slots__ = ("val", "null", "kind")

    def __init__(self, val, null=F, kind="i"):
        self.val, self.null, self.kind = val, null, kind

    def num(self):
        return I(self.val) if self.kind != "b" else If(self.val, z3.IntVal(1), z3.IntVal(0))


def lit_cell(x):
    if isinstance(x, Cell):
        return x
    if isinstance(x, SymScalar):
        return x.cell
    if is_null_literal(x):
        return Cell(z3.IntVal(0), T, "f")
    if isinstance(x, bool) or type(x).__name__ == "bool_":
        return Cell(B(bool(x)), F, "b")
    if isinstance(x, float):
        return Cell(I(x), F, "f")
    if z3.is_bool(x):
        return Cell(x, F, "b")
    if isinstance(x, str):
        raise Unsupported("string value")
    return Cell(I(x), F, "i")


def _arith_kind(a, b, op):
    if op in ("truediv",):
        return "f"
    if "f" in (a.kind, b.kind):
        return "f"
    return "i"


def cell_binop(op, a: Cell, b: Cell) -> Cell:
    """pandas elementwise semantics of `a op b` on one row"""
    if op in ("add", "sub", "mul", "truediv", "floordiv", "mod", "pow"):
        if a.kind == "b" and b.kind == "b" and op in ("add", "mul"):
            # bool + bool is logical or, bool * bool is logical and in numpy
            return Cell(Or(a.val, b.val) if op == "add" else And(a.val, b.val), F, "b")
        x, y = a.num(), b.num()
        null = Or(a.null, b.null)
        kind = _arith_kind(a, b, op)
        if op == "add":
            v = x + y
        elif op == "sub":
            v = x - y
        elif op == "mul":
            v = x * y
        elif op == "truediv":
            v = uf("DIV", x, y)
            null = Or(null, And(x == 0, y == 0))
        elif op == "floordiv":
            v = uf("FLOORDIV", x, y)
            kind = _arith_kind(a, b, op)
        elif op == "mod":
            v = uf("MOD", x, y)
        else:
            v = uf("POW", x, y)
        return Cell(v, null, kind)
    if op in ("lt", "le", "gt", "ge", "eq", "ne"):
        if a.kind == "b" and b.kind == "b" and op in ("eq", "ne"):
            r = a.val == b.val if op == "eq" else a.val != b.val
        else:
            x, y = a.num(), b.num()
            r = getattr(operator, op)(x, y)
        anynull = Or(a.null, b.null)
        if op == "ne":
            return Cell(Or(anynull, r), F, "b")
        return Cell(And(Not(anynull), r), F, "b")
    if op in ("and_", "or_", "xor"):
        if a.kind != "b" or b.kind != "b":
            raise Unsupported("bitwise op on non-bool")
        if not (is_f(a.null) and is_f(b.null)):
            raise Unsupported("logical op on nullable bool")
        if op == "and_":
            return Cell(And(a.val, b.val), F, "b")
        if op == "or_":
            return Cell(Or(a.val, b.val), F, "b")
        return Cell(z3.Xor(a.val, b.val), F, "b")
    raise Unsupported(f"binary op {op}")


def cell_eq(a: Cell, b: Cell):
    """payload equality of two cells (NaN == NaN)"""
    if a.kind == "b" and b.kind == "b":
        same = a.val == b.val
    else:
        same = a.num() == b.num()
    return Or(And(a.null, b.null), And(Not(a.null), Not(b.null), same))


class Col:
    __slots__ = ("kind", "vals", "nulls")

    def __init__(self, kind, vals, nulls=None):
        self.kind = kind
        self.vals = list(vals)
        self.nulls = list(nulls) if nulls is not None else [F] * len(self.vals)

    def cell(self, i):
        return Cell(self.vals[i], self.nulls[i], self.kind)

    def cells(self):
        return [Cell(v, n, self.kind) for v, n in zip(self.vals, self.nulls)]

    @staticmethod
    def from_cells(cells, kind=None):
        cells = list(cells)
        if kind is None:
            kinds = {c.kind for c in cells}
            if not kinds:
                kind = "i"
            elif kinds == {"b"}:
                kind = "b"
            elif "b" in kinds:
                # mixing bool and numeric: numeric
                kind = "f" if "f" in kinds else "i"
            else:
                kind = "f" if "f" in kinds else "i"
        if kind == "b":
            vals = [c.val if c.kind == "b" else (c.num() != 0) for c in cells]
        else:
            vals = [c.num() for c in cells]
        return Col(kind, vals, [c.null for c in cells])

    def take(self, idxs):
        return Col(self.kind, [self.vals[i] for i in idxs], [self.nulls[i] for i in idxs])

    def __len__(self):
        return len(self.vals)

    @property
    def nullable(self):
        return not all(is_f(n) for n in self.nulls)


NAN_LABEL = z3.IntVal(2 ** 40)  # the missing index label; source values are assumed smaller in magnitude where it is used


class Idx:
    """index labels of the slots. `defined=False`: labels are whatever pandas generated (RangeIndex after
    reset_index / merge / ignore_index) and are not part of any comparison."""

    __slots__ = ("vals", "name", "defined", "labels", "nan")

    def __init__(self, vals, name=None, defined=True, labels=False, nan=False):
        # nan=True: a label equal to NAN_LABEL stands for a missing label (the NaN group of groupby(dropna=False))
        self.vals, self.name, self.defined, self.labels, self.nan = list(vals), name, defined, labels, nan

    def take(self, idxs):
        return Idx([self.vals[i] for i in idxs], self.name, self.defined, self.labels, self.nan)

    def column(self):
        """the labels as a column (reset_index / groupby(level=))"""
        if self.nan:
            return Col("f", [I(v) for v in self.vals], [z3.simplify(I(v) == NAN_LABEL) for v in self.vals])
        return Col("i", [I(v) for v in self.vals])

    @staticmethod
    def undefined(n, name=None):
        return Idx([z3.IntVal(0)] * n, name, False)

    def __len__(self):
        return len(self.vals)


# ---------------------------------------------------------------------------------------------- path forking

class PathExplorer:
    """CrossHair-style decision list for data-dependent branches inside real task functions."""

    current = None

    def __init__(self, solver_factory, max_paths=64):
        self.decisions = []  # list of (cond, taken) for this path
        self.script = []  # forced decisions for the current run
        self.pos = 0
        self.solver_factory = solver_factory
        self.max_paths = max_paths
        self.base = []

    def decide(self, cond):
        if is_t(cond):
            return True
        if is_f(cond):
            return False
        if self.pos < len(self.script):
            taken = self.script[self.pos]
        else:
            taken = None
            for choice in (True, False):
                s = self.solver_factory()
                s.add(*self.base)
                for c, t in self.decisions:
                    s.add(c if t else Not(c))
                s.add(cond if choice else Not(cond))
                if str(s.check()) == "sat":
                    taken = choice
                    break
            if taken is None:
                raise InfeasiblePath()
            self.script.append(taken)
        self.pos += 1
        self.decisions.append((cond, taken))
        return taken

    def path_condition(self):
        return And(*[c if t else Not(c) for c, t in self.decisions])


class InfeasiblePath(BaseException):
    pass


def explore(fn, solver_factory, base=(), max_paths=64):
    """Run fn() once per feasible path; returns [(path condition, value | exception)]"""
    results = []
    pending = [[]]
    while pending:
        if len(results) >= max_paths:
            raise Unsupported("too many data-dependent paths")
        script = pending.pop()
        ex = PathExplorer(solver_factory, max_paths)
        ex.base = list(base)
        ex.script = list(script)
        prev, PathExplorer.current = PathExplorer.current, ex
        try:
            try:
                val = fn()
            except InfeasiblePath:
                continue
            except (Unsupported, StructuralError):
                raise
            except Exception as e:  # a real task function raised on this path (e.g. NotImplementedError)
                val = e
        finally:
            PathExplorer.current = prev
        results.append((ex.path_condition(), val))
        # schedule the alternatives of every decision made beyond the forced prefix
        for k in range(len(script), len(ex.decisions)):
            alt = [t for _, t in ex.decisions[:k]] + [not ex.decisions[k][1]]
            # feasibility of the alternative is checked when it is run (InfeasiblePath if not)
            s = solver_factory()
            s.add(*base)
            for c, t in ex.decisions[:k]:
                s.add(c if t else Not(c))
            c, t = ex.decisions[k]
            s.add(Not(c) if t else c)
            if str(s.check()) == "sat":
                pending.append(alt)
    return results


def decide(cond):
    if is_t(cond):
        return True
    if is_f(cond):
        return False
    if PathExplorer.current is None:
        raise Unsupported("data-dependent Python branch outside a path explorer")
    return PathExplorer.current.decide(cond)


# ---------------------------------------------------------------------------------------------- base class

class SymBase:
    def __array_ufunc__(self, ufunc, method, *inputs, **kwargs):
        # np.sqrt(frame) (groupby std); every other ufunc defers to the Python operators
        if method == "__call__" and ufunc.__name__ == "sqrt" and len(inputs) == 1 and not kwargs and hasattr(self, "sqrt"):
            return self.sqrt()
        return NotImplemented


class SymScalar(SymBase):
    """a scalar result (reduction output, len, ...)"""

    ndim = 0

    def __init__(self, val, null=F, kind="i"):
        if isinstance(val, Cell):
            self.cell = val
        else:
            self.cell = Cell(val, null, kind)

    @property
    def val(self):
        return self.cell.val

    @property
    def null(self):
        return self.cell.null

    @property
    def kind(self):
        return self.cell.kind

    def _bin(self, other, op, reverse=False):
        if isinstance(other, (SymSeries, SymFrame, SymLabelSeries)):
            return NotImplemented
        o = lit_cell(other)
        a, b = (o, self.cell) if reverse else (self.cell, o)
        return SymScalar(cell_binop(op, a, b))

    def astype(self, dtype):
        k = _dtype_kind(dtype)
        c = self.cell
        if k == "b":
            return SymScalar(Cell(c.num() != 0 if c.kind != "b" else c.val, F, "b"))
        return SymScalar(Cell(c.num(), c.null, k))

    def __bool__(self):
        if self.kind != "b":
            return decide(self.cell.num() != 0)
        return decide(And(self.val, Not(self.null)))

    def __neg__(self):
        return SymScalar(Cell(-self.cell.num(), self.null, self.kind))

    def __abs__(self):
        v = self.cell.num()
        return SymScalar(Cell(If(v < 0, -v, v), self.null, self.kind))

    def __invert__(self):
        if self.kind != "b":
            raise Unsupported("~ on numeric scalar")
        return SymScalar(Cell(Not(self.val), F, "b"))

    def __repr__(self):
        return f"SymScalar({self.val}, null={self.null}, kind={self.kind})"


def _install_binops(cls):
    for name in ("add", "sub", "mul", "truediv", "floordiv", "mod", "pow", "lt", "le", "gt", "ge", "eq", "ne", "and_", "or_", "xor"):
        dunder = name.rstrip("_")

        def fwd(self, other, _op=name):
            return self._bin(other, _op)

        def rev(self, other, _op=name):
            return self._bin(other, _op, reverse=True)

        setattr(cls, f"__{dunder}__", fwd)
        if name not in ("lt", "le", "gt", "ge", "eq", "ne"):
            setattr(cls, f"__r{dunder}__", rev)
    # the method spellings (df.add(other), ...): default axis / level / fill_value only
    for meth, opname in (("add", "add"), ("sub", "sub"), ("mul", "mul"), ("div", "truediv"), ("truediv", "truediv"), ("floordiv", "floordiv"), ("mod", "mod"), ("pow", "pow"),
                         ("lt", "lt"), ("le", "le"), ("gt", "gt"), ("ge", "ge"), ("eq", "eq"), ("ne", "ne")):
        def method(self, other, axis="columns", level=None, fill_value=None, _op=opname):
            if level is not None or fill_value is not None or axis not in ("columns", 1, None):
                raise Unsupported("binary operator method options")
            return self._bin(other, _op)

        if not hasattr(cls, meth):
            setattr(cls, meth, method)
    for meth, opname in (("radd", "add"), ("rsub", "sub"), ("rmul", "mul"), ("rtruediv", "truediv"), ("rdiv", "truediv")):
        def rmethod(self, other, axis="columns", level=None, fill_value=None, _op=opname):
            if level is not None or fill_value is not None or axis not in ("columns", 1, None):
                raise Unsupported("binary operator method options")
            return self._bin(other, _op, reverse=True)

        if not hasattr(cls, meth):
            setattr(cls, meth, rmethod)
    cls.__hash__ = lambda self: id(self)


def _dtype_kind(dtype):
    s = str(getattr(dtype, "name", dtype)).lower()
    if s in ("bool", "boolean", "<class 'bool'>"):
        return "b"
    if s.startswith("int") or s.startswith("uint") or s == "<class 'int'>":
        return "i"
    if s.startswith("float") or s == "<class 'float'>":
        return "f"
    raise Unsupported(f"dtype {dtype}")


class _DType:
    """minimal dtype stand-in"""

    def __init__(self, kind):
        self.kind_ = kind
        self.name = {"i": "int64", "f": "float64", "b": "bool"}[kind]
        self.kind = {"i": "i", "f": "f", "b": "b"}[kind]

    def __eq__(self, other):
        return str(other) == self.name

    def __hash__(self):
        return hash(self.name)

    def __str__(self):
        return self.name

    __repr__ = __str__


def same_valid(a, b):
    if len(a) != len(b):
        return False
    return all((x is y) or x.eq(y) for x, y in zip(a, b))


def before(order, n):
    """before(j, i): concrete bool or z3 Bool saying slot j precedes slot i in row order"""
    if order is None:
        return lambda j, i: j < i
    if isinstance(order, str):
        raise Unsupported("row order is unspecified here (after a shuffle / join): order-dependent operation not modelled")

    def lt(j, i):
        kj, ki = order[j], order[i]
        res = F if not (j < i) else T  # tie -> slot position
        for a, b in reversed(list(zip(kj, ki))):
            a, b = I(a), I(b)
            res = Or(a < b, And(a == b, res))
        return res

    return lt


def ranks(valid, order):
    """rank of every slot among the valid rows (number of valid rows strictly before it)"""
    n = len(valid)
    bf = before(order, n)
    out = []
    for i in range(n):
        terms = []
        for j in range(n):
            if j == i:
                continue
            b = bf(j, i)
            if b is False or (not isinstance(b, bool) and is_f(b)):
                continue
            c = And(valid[j], B(b) if isinstance(b, bool) else b)
            terms.append(If(c, z3.IntVal(1), z3.IntVal(0)))
        out.append(Sum(terms))
    return out


def count(valid):
    return Sum([If(v, z3.IntVal(1), z3.IntVal(0)) for v in valid])


class _RowsMixin:
    """shared by SymSeries / SymFrame / SymIndex: valid, index, prov, order"""

    def _row_attrs(self):
        return dict(valid=self.valid, index=self.index, prov=self.prov, order=self.order)

    @property
    def nslots(self):
        return len(self.valid)

    def __len__(self):
        # len() must be a Python int: fork on the symbolic count
        c = count(self.valid)
        if z3.is_int_value(z3.simplify(c)):
            return z3.simplify(c).as_long()
        for k in range(self.nslots + 1):
            if decide(c == k):
                return k
        raise InfeasiblePath()

    @property
    def shape(self):
        return (len(self),) if self.ndim == 1 else (len(self), len(self.columns))

    @property
    def empty(self):
        return not decide(count(self.valid) > 0)

    def _ranks(self):
        return ranks(self.valid, self.order)

    def _head_valid(self, n):
        if n < 0:
            raise Unsupported("negative head")
        r = self._ranks()
        return [And(v, ri < n) for v, ri in zip(self.valid, r)]

    def _tail_valid(self, n):
        if n < 0:
            raise Unsupported("negative tail")
        # number of valid rows after slot i
        tot = count(self.valid)
        r = self._ranks()
        return [And(v, tot - ri - 1 < n) for v, ri in zip(self.valid, r)]


# forward declarations resolved in frame.py
SymSeries = None
SymFrame = None
SymLabelSeries = None
SymIndex = None
