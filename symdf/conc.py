"""Concretisation: solver models -> pandas tables (replay), symbolic results -> pandas objects under a concrete
assignment (translator validation), and comparison of concrete pandas results."""
from __future__ import annotations

import math

import numpy as np
import pandas as pd
import z3

from .core import SymScalar
from .frame import SymFrame, SymIndex, SymLabelSeries, SymSeries
from .interp import Env


# ---------------------------------------------------------------------------------------------- model -> tables

def tables_from_model(env: Env, model, default=0):
    """concrete pandas frames for every source of env under a z3 model (None -> all defaults)"""
    out = {}
    for name, src in env.sources.items():
        tag = src["frame"]
        data = {}
        for col, kind in src["kinds"].items():
            vals = []
            for t in tag[col].values:
                _, _, r, k, v, n = env.tags[int(t)]
                isnull = False
                if model is not None and n is not None and not z3.is_false(n):
                    isnull = z3.is_true(model.eval(n, model_completion=True))
                if isnull:
                    vals.append(np.nan)
                else:
                    x = model.eval(v, model_completion=True).as_long() if model is not None else default
                    vals.append(float(x) if kind == "f" else x)
            data[col] = np.array(vals, dtype="float64" if kind == "f" else "int64")
        if src.get("sym_index"):
            idx = []
            for t in tag.index:
                _, r, v = env.idx_tags[int(t)]
                idx.append(model.eval(v, model_completion=True).as_long() if model is not None else int(r))
            index = pd.Index(idx, dtype="int64", name=tag.index.name)
        else:
            index = tag.index.copy()
        df = pd.DataFrame(data, index=index)
        present = []
        for r in range(src["nrows"]):
            b = env.row_valid.get((name, r))
            present.append(True if b is None or model is None else z3.is_true(model.eval(b, model_completion=True)))
        out[name] = (df, present)
    return out


def random_tables(env: Env, rng, lo=-2, hi=3, pnull=0.3):
    out = {}
    for name, src in env.sources.items():
        tag = src["frame"]
        data = {}
        for col, kind in src["kinds"].items():
            vals = rng.integers(lo, hi + 1, size=src["nrows"]).astype("float64" if kind == "f" else "int64")
            if kind == "f":
                nulls = rng.random(src["nrows"]) < pnull
                # only cells that have a null variable may be null
                for i, t in enumerate(tag[col].values):
                    if z3.is_false(env.tags[int(t)][5]):
                        nulls[i] = False
                vals[nulls] = np.nan
            data[col] = vals
        index = tag.index.copy()
        if src.get("sym_index"):
            index = None  # caller supplies (needs the declared ranges)
        df = pd.DataFrame(data, index=index if index is not None else pd.RangeIndex(src["nrows"]))
        present = [True if (name, r) not in env.row_valid else bool(rng.random() < 0.7) for r in range(src["nrows"])]
        out[name] = (df, present)
    return out


def assignment(env: Env, tables):
    """variable name -> python value, for the term evaluator"""
    asg = {}
    for name, (df, present) in tables.items():
        src = env.sources[name]
        tag = src["frame"]
        for col in src["kinds"]:
            for i, t in enumerate(tag[col].values):
                _, _, r, k, v, n = env.tags[int(t)]
                x = df[col].iloc[i]
                isnull = bool(pd.isna(x))
                asg[str(v)] = 0 if isnull else int(x)
                if not z3.is_false(n):
                    asg[str(n)] = isnull
        if src.get("sym_index"):
            for i, t in enumerate(tag.index):
                _, r, v = env.idx_tags[int(t)]
                asg[str(v)] = int(df.index[i])
        for r in range(src["nrows"]):
            b = env.row_valid.get((name, r))
            if b is not None:
                asg[str(b)] = bool(present[r])
    return asg


# ---------------------------------------------------------------------------------------------- term evaluator

class Evaluator:
    def __init__(self, asg, hash_fn=None):
        self.asg, self.memo, self.hash_fn = asg, {}, hash_fn

    def __call__(self, t):
        if isinstance(t, (int, float, bool)):
            return t
        key = t.get_id()
        if key in self.memo:
            return self.memo[key]
        v = self._ev(t)
        self.memo[key] = v
        return v

    def _ev(self, t):
        if z3.is_int_value(t):
            return t.as_long()
        if z3.is_true(t):
            return True
        if z3.is_false(t):
            return False
        k = t.decl().kind()
        ch = t.children()
        if k == z3.Z3_OP_UNINTERPRETED:
            name = t.decl().name()
            if not ch:
                if name not in self.asg:
                    raise KeyError(f"unassigned variable {name}")
                return self.asg[name]
            args = [self(c) for c in ch]
            return self._uf(name, args)
        if k == z3.Z3_OP_ITE:
            return self(ch[1]) if self(ch[0]) else self(ch[2])
        if k == z3.Z3_OP_AND:
            return all(self(c) for c in ch)
        if k == z3.Z3_OP_OR:
            return any(self(c) for c in ch)
        if k == z3.Z3_OP_NOT:
            return not self(ch[0])
        if k == z3.Z3_OP_XOR:
            return bool(self(ch[0])) != bool(self(ch[1]))
        if k == z3.Z3_OP_IMPLIES:
            return (not self(ch[0])) or self(ch[1])
        a = [self(c) for c in ch]
        if k == z3.Z3_OP_ADD:
            return sum(a)
        if k == z3.Z3_OP_SUB:
            r = a[0]
            for x in a[1:]:
                r -= x
            return r
        if k == z3.Z3_OP_MUL:
            r = 1
            for x in a:
                r *= x
            return r
        if k == z3.Z3_OP_UMINUS:
            return -a[0]
        if k == z3.Z3_OP_EQ:
            return a[0] == a[1]
        if k == z3.Z3_OP_DISTINCT:
            return len(set(a)) == len(a)
        if k == z3.Z3_OP_LE:
            return a[0] <= a[1]
        if k == z3.Z3_OP_LT:
            return a[0] < a[1]
        if k == z3.Z3_OP_GE:
            return a[0] >= a[1]
        if k == z3.Z3_OP_GT:
            return a[0] > a[1]
        if k == z3.Z3_OP_IDIV:
            return a[0] // a[1] if a[1] != 0 else 0
        if k == z3.Z3_OP_MOD:
            return a[0] % a[1] if a[1] != 0 else 0
        if k == z3.Z3_OP_TO_REAL or k == z3.Z3_OP_TO_INT:
            return a[0]
        raise NotImplementedError(f"evaluator: {t.decl()}")

    def _uf(self, name, a):
        try:
            if name == "DIV":
                return a[0] / a[1] if a[1] != 0 else (math.inf if a[0] > 0 else (-math.inf if a[0] < 0 else math.nan))
            if name == "FLOORDIV":
                return a[0] // a[1] if a[1] != 0 else math.nan
            if name == "MOD":
                return a[0] % a[1] if a[1] != 0 else math.nan
            if name == "POW":
                return a[0] ** a[1]
            if name == "SQRT":
                return math.sqrt(a[0]) if a[0] >= 0 else math.nan
        except (OverflowError, ZeroDivisionError):
            return math.nan
        if name.startswith("H") and self.hash_fn is not None:
            return self.hash_fn(name, a)
        raise NotImplementedError(f"uninterpreted function {name} in evaluator")


def eval_result(x, ev: Evaluator):
    """symbolic result -> pandas object / python scalar under the assignment"""
    def cellval(c):
        if ev(c.null):
            return np.nan
        v = ev(c.val)
        return bool(v) if c.kind == "b" else v

    if isinstance(x, (tuple, list)):
        return tuple(eval_result(e, ev) for e in x)
    if isinstance(x, SymScalar):
        return cellval(x.cell)
    if isinstance(x, SymLabelSeries):
        return pd.Series([cellval(c) for c in x.cells_], index=x.labels, name=x.name)
    if not isinstance(x, (SymFrame, SymSeries, SymIndex)):
        return x
    n = x.nslots
    rows = [i for i in range(n) if ev(x.valid[i])]
    if x.order is not None and not isinstance(x.order, str):
        keyed = sorted(rows, key=lambda i: (tuple(ev(k) if not isinstance(k, (int, bool)) else k for k in x.order[i]), i))
        rows = keyed
    idx = x.index_ if not isinstance(x, SymIndex) else x.idx
    if idx.defined:
        ivals = [ev(idx.vals[i]) if z3.is_expr(idx.vals[i]) else idx.vals[i] for i in rows]
        if idx.nan:
            ivals = [np.nan if v == 2 ** 40 else v for v in ivals]
        index = pd.Index(ivals, name=idx.name)
    else:
        index = pd.RangeIndex(len(rows), name=idx.name)
    if isinstance(x, SymIndex):
        return index
    if isinstance(x, SymSeries):
        return pd.Series([cellval(x.col.cell(i)) for i in rows], index=index, name=x.name, dtype=None if rows else "float64")
    data = [[cellval(c.cell(i)) for i in rows] for _, c in x.cols]
    df = pd.DataFrame({j: d for j, d in enumerate(data)}, index=index)
    df.columns = pd.Index(x.labels) if x.labels else pd.Index([])
    return df


# ---------------------------------------------------------------------------------------------- pandas comparison

def _norm(v):
    if isinstance(v, (bool, np.bool_)):
        return float(v)
    try:
        f = float(v)
    except (TypeError, ValueError):
        return v
    if math.isnan(f):
        return "nan"
    if math.isinf(f):
        return "inf" if f > 0 else "-inf"
    return round(f, 6)


def rows_of(obj, with_index):
    if isinstance(obj, pd.DataFrame):
        vals = [tuple(_norm(v) for v in row) for row in obj.itertuples(index=False, name=None)]
    elif isinstance(obj, (pd.Series, pd.Index)):
        vals = [(_norm(v),) for v in obj.tolist()]
    else:
        return None
    if with_index and not isinstance(obj, pd.Index):
        vals = [(_norm(i),) + v for i, v in zip(obj.index.tolist(), vals)]
    return vals


def same_pandas(a, b, ordered, check_index, check_names=True):
    """-> (bool, message)"""
    if isinstance(a, (pd.DataFrame, pd.Series, pd.Index)) != isinstance(b, (pd.DataFrame, pd.Series, pd.Index)):
        return False, f"kinds differ: {type(a).__name__} vs {type(b).__name__}"
    if isinstance(a, (tuple, list)) and isinstance(b, (tuple, list)):
        ok = len(a) == len(b) and all(_norm(x) == _norm(y) for x, y in zip(a, b))
        return ok, f"{a!r} vs {b!r}"
    if not isinstance(a, (pd.DataFrame, pd.Series, pd.Index)):
        return (_norm(a) == _norm(b)), f"{a!r} vs {b!r}"
    if isinstance(a, pd.DataFrame) != isinstance(b, pd.DataFrame):
        return False, f"kinds differ: {type(a).__name__} vs {type(b).__name__}"
    if isinstance(a, pd.DataFrame) and [str(c) for c in a.columns] != [str(c) for c in b.columns]:
        return False, f"columns differ: {list(a.columns)} vs {list(b.columns)}"
    if isinstance(a, pd.Series) and isinstance(b, pd.Series) and check_names and a.name != b.name:
        # label series (reduction results) compare by label
        return False, f"names differ: {a.name!r} vs {b.name!r}"
    ra, rb = rows_of(a, check_index), rows_of(b, check_index)
    if not ordered:
        ra, rb = sorted(ra, key=repr), sorted(rb, key=repr)
    if ra != rb:
        return False, f"rows differ: {ra[:8]} vs {rb[:8]} (lens {len(ra)}, {len(rb)})"
    return True, "equal"
