"""Obligations over symbolic results: equality of two results (rows as multisets or sequences), built as z3 terms."""
from __future__ import annotations

import z3

from .core import And, B, Cell, F, I, If, Not, Or, Sum, SymScalar, T, Unsupported, cell_eq, count, ranks, is_f, is_t
from .frame import SymFrame, SymIndex, SymLabelSeries, SymSeries, sym_concat


class Mismatch(Exception):
    """data-independent difference between two results (kind, labels, names)"""


def gather(parts):
    """what compute() would hand back: the concatenation of the partitions (or the single scalar)"""
    from .frame import _from_empty_pandas

    parts = [_from_empty_pandas(p) for p in parts]
    if len(parts) == 1 and not isinstance(parts[0], (SymFrame, SymSeries, SymIndex)):
        return parts[0]
    if all(isinstance(p, (SymFrame, SymSeries, SymIndex)) for p in parts):
        return sym_concat(parts) if len(parts) > 1 else parts[0]
    raise Unsupported(f"gather of {[type(p).__name__ for p in parts]}")


def _payload(x, i, use_index):
    if isinstance(x, SymFrame):
        cells = [c.cell(i) for _, c in x.cols]
    elif isinstance(x, SymSeries):
        cells = [x.col.cell(i)]
    else:
        cells = []
    if use_index:
        idx = x.index_ if not isinstance(x, SymIndex) else x.idx
        if idx.labels:
            cells.append(("label", idx.vals[i]))
        else:
            cells.append(Cell(I(idx.vals[i]), F, "i"))
    elif isinstance(x, SymIndex):
        cells.append(Cell(I(x.idx.vals[i]), F, "i"))
    return cells


def _payload_eq(pa, pb):
    out = []
    for a, b in zip(pa, pb):
        if isinstance(a, tuple) or isinstance(b, tuple):
            if a != b:
                return F
            continue
        out.append(cell_eq(a, b))
    return And(*out)


def structure(a, b, check_names=True):
    if type(a) is not type(b):
        # a python scalar vs SymScalar is fine
        if not (isinstance(a, (SymScalar, int, float, bool)) and isinstance(b, (SymScalar, int, float, bool))):
            raise Mismatch(f"result kinds differ: {type(a).__name__} vs {type(b).__name__}")
    if isinstance(a, SymFrame):
        if [str(x) for x in a.labels] != [str(x) for x in b.labels]:
            raise Mismatch(f"column labels differ: {a.labels} vs {b.labels}")
    if isinstance(a, SymSeries) and check_names and a.name != b.name:
        raise Mismatch(f"series names differ: {a.name!r} vs {b.name!r}")
    if isinstance(a, SymLabelSeries) and [str(x) for x in a.labels] != [str(x) for x in b.labels]:
        raise Mismatch(f"labels differ: {a.labels} vs {b.labels}")


def _use_index(a, b):
    ia = a.index_ if not isinstance(a, SymIndex) else a.idx
    ib = b.index_ if not isinstance(b, SymIndex) else b.idx
    if isinstance(a, SymIndex):
        return False  # the labels are the payload already
    return ia.defined and ib.defined


def equal(a, b, ordered=False, check_index=True, check_names=True):
    """z3 Bool: results a and b are equal (NaN == NaN; order-insensitive unless ordered)"""
    if isinstance(a, (tuple, list)) and isinstance(b, (tuple, list)):
        # e.g. the per-partition lengths tuple
        if len(a) != len(b):
            raise Mismatch(f"tuple results of different length: {len(a)} vs {len(b)}")
        return And(*[equal(x, y, ordered, check_index, check_names) for x, y in zip(a, b)])
    structure(a, b, check_names)
    if isinstance(a, (SymScalar, int, float, bool)):
        from .core import lit_cell

        return cell_eq(lit_cell(a), lit_cell(b))
    if isinstance(a, SymLabelSeries):
        return And(*[cell_eq(x, y) for x, y in zip(a.cells_, b.cells_)])
    if ordered and (isinstance(a.order, str) or isinstance(b.order, str)):
        ordered = False  # row order is implementation-defined here (after a shuffle / join): compare as multisets
    use_index = check_index and _use_index(a, b)
    pa = [_payload(a, i, use_index) for i in range(a.nslots)]
    pb = [_payload(b, i, use_index) for i in range(b.nslots)]
    functional = all(not (isinstance(p, tuple) and p and p[0] in ("g", "vc", "scalar", "red")) for p in list(a.prov) + list(b.prov))
    if not functional:
        if ordered:
            return equal_sequence(a, b, check_index)
        grouped = all(isinstance(p, tuple) and p and p[0] in ("g", "vc") for p in list(a.prov) + list(b.prov))
        if grouped and use_index:
            return equal_keyed_by_index(a, b, pa, pb)
        return equal_multiset(a, b, check_index)
    return _keyed(a, b, pa, pb, ordered)


def _keyed(a, b, pa, pb, ordered):
    """provenance-keyed comparison: for every provenance id the multiplicities agree and, where present on both
    sides, the payloads (and ranks when ordered) agree."""
    ids = {}
    for side, x in ((0, a), (1, b)):
        for i, p in enumerate(x.prov):
            ids.setdefault(p, ([], []))[side].append(i)
    conj = []
    ra = ranks(a.valid, a.order) if ordered else None
    rb = ranks(b.valid, b.order) if ordered else None
    for p, (sa, sb) in ids.items():
        ma = Sum([If(a.valid[i], z3.IntVal(1), z3.IntVal(0)) for i in sa])
        mb = Sum([If(b.valid[j], z3.IntVal(1), z3.IntVal(0)) for j in sb])
        conj.append(ma == mb)
        for i in sa:
            for j in sb:
                both = And(a.valid[i], b.valid[j])
                if is_f(both):
                    continue
                same = _payload_eq(pa[i], pb[j])
                if ordered:
                    same = And(same, ra[i] == rb[j])
                conj.append(Or(Not(both), same))
    return And(*conj)


def equal_keyed_by_index(a, b, pa, pb):
    """both results hold one row per distinct index label (groupby / value_counts outputs): every valid row has a valid
    row with the same label and payload on the other side; no label occurs twice on a side"""
    conj = []
    for X, px, Y, py in ((a, pa, b, pb), (b, pb, a, pa)):
        for i in range(X.nslots):
            match = [And(Y.valid[j], _payload_eq(px[i], py[j])) for j in range(Y.nslots)]
            conj.append(Or(Not(X.valid[i]), Or(*match)))
        # uniqueness of labels on this side (the last payload component is the index label)
        for i in range(X.nslots):
            for j in range(i + 1, X.nslots):
                li, lj = px[i][-1], px[j][-1]
                if isinstance(li, tuple) or isinstance(lj, tuple):
                    continue
                conj.append(Or(Not(X.valid[i]), Not(X.valid[j]), Not(cell_eq(li, lj))))
    return And(*conj)


def equal_multiset(a, b, check_index=True):
    """generic (quadratic) multiset equality, independent of provenance ids"""
    structure(a, b)
    use_index = check_index and _use_index(a, b)
    pa = [_payload(a, i, use_index) for i in range(a.nslots)]
    pb = [_payload(b, i, use_index) for i in range(b.nslots)]
    conj = []
    for X, px in ((a, pa), (b, pb)):
        for i in range(X.nslots):
            ca = Sum([If(And(a.valid[k], _payload_eq(pa[k], px[i])), z3.IntVal(1), z3.IntVal(0)) for k in range(a.nslots)])
            cb = Sum([If(And(b.valid[k], _payload_eq(pb[k], px[i])), z3.IntVal(1), z3.IntVal(0)) for k in range(b.nslots)])
            conj.append(Or(Not(X.valid[i]), ca == cb))
    return And(*conj)


def equal_sequence(a, b, check_index=True):
    """generic sequence equality: same number of rows and equal payload at equal rank"""
    structure(a, b)
    use_index = check_index and _use_index(a, b)
    pa = [_payload(a, i, use_index) for i in range(a.nslots)]
    pb = [_payload(b, i, use_index) for i in range(b.nslots)]
    ra, rb = ranks(a.valid, a.order), ranks(b.valid, b.order)
    conj = [count(a.valid) == count(b.valid)]
    for i in range(a.nslots):
        for j in range(b.nslots):
            both = And(a.valid[i], b.valid[j], ra[i] == rb[j])
            if is_f(both):
                continue
            conj.append(Or(Not(both), _payload_eq(pa[i], pb[j])))
    return And(*conj)


def nonempty(x):
    """reachability witness: the result has at least one row / is a defined scalar"""
    if isinstance(x, (SymFrame, SymSeries, SymIndex)):
        return count(x.valid) > 0
    return T
