"""models of dask's hash-shuffle leaf callables.  The hash is an uninterpreted function H: equal key values (after
the float64 cast dask-expr attaches to numeric keys) hash alike, nothing else is assumed."""
from __future__ import annotations

import numpy as np
import z3
from dask.dataframe.shuffle import partitioning_index, shuffle_group, shuffle_group_2, shuffle_group_get, set_partitions_pre

from .core import And, Cell, Col, F, I, Idx, If, Not, Or, Sum, T, Unsupported, StructuralError, uf
from .frame import SymFrame, SymSeries, SymIndex
from .interp import model

_H = {}


def hash_rows(df, cast_dtype=None):
    """per-slot Int hash term of the row of `df` (all columns)"""
    if isinstance(df, SymSeries):
        df = df.to_frame()
    if isinstance(df, SymIndex):
        df = df.to_frame()
    if not isinstance(df, SymFrame):
        raise Unsupported("hash of non-frame")
    kinds = []
    for k, c in df.cols:
        cast = False
        if cast_dtype is not None:
            if isinstance(cast_dtype, dict):
                cast = k in cast_dtype and np.dtype(cast_dtype[k]).kind == "f"
            else:
                cast = np.dtype(cast_dtype).kind == "f"
        kinds.append("n" if cast else c.kind)
    name = "H_" + "".join(kinds)
    if name not in _H:
        _H[name] = z3.Function(name, *([z3.IntSort()] * (2 * len(kinds))), z3.IntSort())
    fn = _H[name]
    out = []
    for i in range(df.nslots):
        args = []
        for _, c in df.cols:
            cell = c.cell(i)
            args += [If(cell.null, z3.IntVal(0), cell.num()), If(cell.null, z3.IntVal(1), z3.IntVal(0))]
        out.append(fn(*args))
    return out


@model(partitioning_index)
def m_partitioning_index(it, df, npartitions, cast_dtype=None):
    hs = hash_rows(df, cast_dtype)
    n = int(npartitions)
    base = df if not isinstance(df, SymIndex) else df.to_frame()
    return SymSeries(None, Col("i", [h % n for h in hs]), base.valid, base.index_, base.prov, base.order)


def _split(df, ind_terms, k, ignore_index):
    out = {}
    for g in range(k):
        valid = [And(v, t == g) for v, t in zip(df.valid, ind_terms)]
        piece = df._with(valid=valid)
        if ignore_index:
            piece = piece._with(index=Idx.undefined(df.nslots, df.index_.name))
        out[g] = piece
    return out


@model(shuffle_group)
def m_shuffle_group(it, df, cols, stage, k, npartitions, ignore_index, nfinal):
    if isinstance(cols, str):
        cols = [cols]
    if not (cols and cols[0] == "_partitions"):
        raise Unsupported("shuffle_group on raw columns")
    ind = df.col("_partitions").cells()
    terms = [((c.num() % int(npartitions)) / int(k ** stage)) % int(k) for c in ind]
    return _split(df, terms, int(k), ignore_index)


class _Group2:
    def __init__(self, df, terms, ignore_index):
        self.df, self.terms, self.ignore_index = df, terms, ignore_index


@model(shuffle_group_2)
def m_shuffle_group_2(it, df, cols, ignore_index, nparts):
    if isinstance(cols, str):
        cols = [cols]
    if not (cols and cols[0] == "_partitions"):
        raise Unsupported("shuffle_group_2 on raw columns")
    terms = [c.num() for c in df.col("_partitions").cells()]
    return _Group2(df, terms, ignore_index), None


@model(shuffle_group_get)
def m_shuffle_group_get(it, g_head, i):
    g, head = g_head
    if not isinstance(g, _Group2):
        raise Unsupported("shuffle_group_get on unexpected input")
    valid = [And(v, t == int(i)) for v, t in zip(g.df.valid, g.terms)]
    piece = g.df._with(valid=valid)
    if g.ignore_index:
        piece = piece._with(index=Idx.undefined(g.df.nslots, g.df.index_.name))
    return piece


m_shuffle_group_get.always = True


@model(set_partitions_pre)
def m_set_partitions_pre(it, s, divisions, ascending=True, na_position="last"):
    """partition number of every value for given (concrete) divisions: searchsorted(side=right) - 1, clipped"""
    try:
        divs = [int(d) for d in (divisions.tolist() if hasattr(divisions, "tolist") else list(divisions))]
    except Exception:
        raise Unsupported("non-integer divisions")
    if not ascending:
        raise Unsupported("descending set_partitions_pre")
    nparts = len(divs) - 1
    out = []
    for c in s.cells():
        v = c.num()
        # pandas: divisions.searchsorted(s, side="right") - 1 ; then last partition absorbs the upper bound; NaN -> last
        p = z3.IntVal(0)
        for k in range(1, nparts):
            p = If(v >= divs[k], z3.IntVal(k), p)
        p = If(c.null, z3.IntVal(nparts - 1 if na_position == "last" else 0), p)
        out.append(p)
    return SymSeries(s.name, Col("i", out), s.valid, s.index_, s.prov, s.order)
