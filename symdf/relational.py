"""pandas merge semantics over symbolic frames + models of dask's merge leaf callables."""
from __future__ import annotations

import pickle

import numpy as np
import pandas as pd
import z3
from dask.dataframe.multi import _concat_wrapper, _merge_chunk_wrapper, _split_partition, merge_chunk

from .core import And, Cell, Col, F, I, Idx, If, Not, Or, Sum, T, Unsupported, StructuralError, cell_eq
from .frame import SymFrame, SymSeries, sym_concat, _first_occurrence
from .interp import model
from .shuffle import hash_rows, _split


def _aslist(x):
    if x is None:
        return None
    if isinstance(x, (list, tuple)):
        return list(x)
    return [x]


def _null_cell(kind):
    return Cell(z3.IntVal(0) if kind != "b" else F, T, "f" if kind != "b" else "b")


def sym_merge(left, right, how="inner", on=None, left_on=None, right_on=None, left_index=False, right_index=False,
              suffixes=("_x", "_y"), indicator=False, sort=False, **kw):
    if indicator not in (False, True, None) and not isinstance(indicator, str):
        raise Unsupported("merge indicator")
    if isinstance(left, SymSeries):
        left = left.to_frame()
    if isinstance(right, SymSeries):
        right = right.to_frame()
    if not isinstance(left, SymFrame) or not isinstance(right, SymFrame):
        raise Unsupported("merge operands")
    for f in (left, right):
        if len(set(f.labels)) != len(f.labels):
            raise StructuralError(f"merge input has duplicated columns {f.labels}")
    semi = how == "leftsemi"
    if semi:
        how = "inner"
    if how not in ("inner", "left", "right", "outer"):
        raise Unsupported(f"merge how={how}")
    if on is not None:
        left_on = right_on = on
    left_on, right_on = _aslist(left_on), _aslist(right_on)
    if left_on is None and right_on is None and not left_index and not right_index:
        common = [c for c in left.labels if c in right.labels]
        if not common:
            raise StructuralError("merge: no common columns")
        left_on = right_on = common

    def keycells(frame, names, use_index):
        if use_index:
            if not frame.index_.defined or frame.index_.labels:
                raise Unsupported("merge on undefined index")
            return [[Cell(I(v), F, "i") for v in frame.index_.vals]], [frame.index_.name]
        cols = []
        for nme in names:
            if nme in frame.labels:
                cols.append(frame.col(nme).cells())
            elif frame.index_.name is not None and nme == frame.index_.name and frame.index_.defined:
                cols.append([Cell(I(v), F, "i") for v in frame.index_.vals])
            else:
                raise StructuralError(f"merge key {nme!r} not in {frame.labels}")
        return cols, list(names)

    lkeys, lnames = keycells(left, left_on, left_index)
    rkeys, rnames = keycells(right, right_on, right_index)
    if len(lkeys) != len(rkeys):
        raise StructuralError("merge: key lists of different length")
    mixed = left_index != right_index
    if mixed:
        raise Unsupported("merge with index on one side only")
    both_index = left_index and right_index
    # ---- output columns
    shared_keys = [] if both_index else [l for l, r in zip(lnames, rnames) if l == r and l in left.labels and r in right.labels]
    out_cols = []  # (label, side, source label)
    lsuf, rsuf = suffixes
    overlap = {c for c in left.labels if c in right.labels and c not in shared_keys}
    for c in left.labels:
        if c in shared_keys:
            out_cols.append((c, "key", c))
        else:
            out_cols.append(((str(c) + lsuf) if c in overlap and lsuf is not None else c, "l", c))
    for c in right.labels:
        if c in shared_keys:
            continue
        out_cols.append(((str(c) + rsuf) if c in overlap and rsuf is not None else c, "r", c))
    labels = [c for c, _, _ in out_cols]
    if len(set(labels)) != len(labels):
        raise StructuralError(f"merge would produce duplicated columns {labels}")
    # ---- rows
    nl, nr = left.nslots, right.nslots
    rvalid = right.valid
    if semi:
        # dask: rhs.drop_duplicates() before an inner merge
        keys = [[c.cell(i) for _, c in right.cols] for i in range(nr)]
        rvalid = _first_occurrence(keys, right.valid, right.order)
    match = [[And(left.valid[i], rvalid[j], *[cell_eq(lk[i], rk[j]) for lk, rk in zip(lkeys, rkeys)]) for j in range(nr)] for i in range(nl)]
    rows = []  # (valid, i or None, j or None)
    for i in range(nl):
        for j in range(nr):
            rows.append((match[i][j], i, j))
    if how in ("left", "outer"):
        for i in range(nl):
            rows.append((And(left.valid[i], Not(Or(*match[i]))), i, None))
    if how in ("right", "outer"):
        for j in range(nr):
            rows.append((And(rvalid[j], Not(Or(*[match[i][j] for i in range(nl)]))), None, j))
    cols = []
    for lab, side, src in out_cols:
        cells = []
        lcol = left.col(src) if side in ("l", "key") else None
        rcol = right.col(src) if side in ("r", "key") else None
        for v, i, j in rows:
            if side == "l":
                cells.append(lcol.cell(i) if i is not None else _null_cell(lcol.kind))
            elif side == "r":
                cells.append(rcol.cell(j) if j is not None else _null_cell(rcol.kind))
            else:
                cells.append(lcol.cell(i) if i is not None else rcol.cell(j))
        kinds = {c.kind for c in cells}
        if "b" in kinds and len(kinds) > 1:
            raise Unsupported("bool column made nullable by a join")
        cols.append((lab, Col.from_cells(cells)))
    if indicator:
        # pandas' categorical left_only / right_only / both as the codes 1 / 2 / 3
        lab = indicator if isinstance(indicator, str) else "_merge"
        if lab in labels:
            raise StructuralError(f"merge indicator column {lab!r} already exists")
        cols.append((lab, Col("i", [z3.IntVal(3 if (i is not None and j is not None) else (1 if j is None else 2)) for _, i, j in rows])))
    valid = [v for v, _, _ in rows]
    prov = [(left.prov[i] if i is not None else None, right.prov[j] if j is not None else None) for _, i, j in rows]
    if both_index:
        ivals = [(left.index_.vals[i] if i is not None else right.index_.vals[j]) for _, i, j in rows]
        nm = left.index_.name if left.index_.name == right.index_.name else None
        index = Idx([I(v) for v in ivals], nm, True)
    else:
        index = Idx.undefined(len(rows))
    return SymFrame(cols, valid, index, prov, "unspecified")


@model(merge_chunk)
def m_merge_chunk(it, lhs, *args, result_meta=None, **kwargs):
    rhs, *rest = args
    if rest:
        raise Unsupported("positional merge args")
    kwargs = {k: (pickle.loads(v) if isinstance(v, bytes) else v) for k, v in kwargs.items()}
    out = sym_merge(lhs, rhs, **kwargs)
    if result_meta is not None and isinstance(result_meta, pd.DataFrame):
        want = [str(c) for c in result_meta.columns]
        got = [str(c) for c in out.labels]
        if sorted(want) == sorted(got) and want != got:
            # pandas' column order for this key placement is whatever meta (a real pandas merge) says
            out = out[[c for c in result_meta.columns]]
    return out


@model(_merge_chunk_wrapper)
def m_merge_chunk_wrapper(it, *args, **kwargs):
    return m_merge_chunk(it, *args, **kwargs)


@model(_concat_wrapper)
def m_concat_wrapper(it, dfs):
    df = sym_concat(list(dfs))
    if isinstance(df, SymFrame) and "_partitions" in df.labels:
        df = df.drop(columns=["_partitions"])
    return df


@model(_split_partition)
def m_split_partition(it, df, on, nsplits):
    if isinstance(on, bytes):
        on = pickle.loads(on)
    if isinstance(on, str) or pd.api.types.is_list_like(on):
        on = [on] if isinstance(on, str) else list(on)
        if set(on) <= set(df.labels):
            cast = {k: np.float64 for k in on if df.col(k).kind in "if"}
            hs = hash_rows(df[on], cast or None)
            return _split(df, [h % int(nsplits) for h in hs], int(nsplits), False)
    raise Unsupported("_split_partition on index / non-column key")
