"""Models of pandas / dask leaf callables that appear in dask-expr tasks, plus the patching that makes the real
dask-expr task functions call them when (and only when) an argument is symbolic.

This module is the trusted base of engine P.  It is validated differentially against real pandas / real compute on
concrete tables by symdf.validate (translator validation)."""
from __future__ import annotations

import builtins
import sys
import types

import numpy as np
import pandas as pd
import z3
from dask.dataframe import methods
from dask.dataframe import core as ddcore
from dask.dataframe.core import _concat, safe_head, apply_and_enforce, total_mem_usage, split_evenly
from dask.dataframe.utils import drop_by_shallow_copy

from .core import And, Cell, Col, F, I, Idx, If, Not, Or, Sum, SymBase, SymScalar, T, Unsupported, StructuralError, count, lit_cell, ranks
from .frame import SymFrame, SymIndex, SymLabelSeries, SymSeries, sym_concat
from .interp import MODELS, Interp, has_sym, model


# ---------------------------------------------------------------------------------------------- concat & friends

@model(_concat)
def m__concat(it, args, ignore_index=False):
    return sym_concat(list(args), ignore_index=ignore_index)


@model(methods.concat)
def m_concat(it, dfs, axis=0, join="outer", uniform=False, filter_warning=True, ignore_index=False, ignore_order=False, **kw):
    return sym_concat(list(dfs), ignore_index=ignore_index, axis=axis, join=join)


@model(pd.concat)
def m_pd_concat(it, objs, axis=0, join="outer", ignore_index=False, **kw):
    return sym_concat(list(objs), ignore_index=ignore_index, axis=axis, join=join)


@model(safe_head)
def m_safe_head(it, df, n):
    return df.head(n)


@model(builtins.len)
def m_len(it, x):
    return SymScalar(count(x.valid), F, "i")


@model(builtins.sum)
def m_sum(it, x, *a):
    if isinstance(x, (SymSeries, SymLabelSeries)):
        return x.sum()
    if isinstance(x, (list, tuple)):
        out = lit_cell(0)
        res = SymScalar(out)
        for e in x:
            res = res + e
        return res
    raise Unsupported("builtin sum on symbolic frame")


@model(drop_by_shallow_copy)
def m_drop(it, df, columns, errors="raise"):
    if not pd.api.types.is_list_like(columns) or isinstance(columns, tuple):
        columns = [columns]
    return df.drop(columns=list(columns), errors=errors)


@model(apply_and_enforce)
def m_apply_and_enforce(it, *args, _func=None, _meta=None, **kwargs):
    out = it.call(_func, list(args), kwargs)
    if isinstance(out, SymFrame) and isinstance(_meta, pd.DataFrame):
        if len(out.labels) != len(_meta.columns):
            raise StructuralError(f"apply_and_enforce: {len(out.labels)} columns computed, {len(_meta.columns)} expected")
        if sorted(map(str, out.labels)) != sorted(map(str, _meta.columns)):
            raise StructuralError(f"apply_and_enforce: columns {out.labels} do not match meta {list(_meta.columns)}")
        if list(out.labels) != list(_meta.columns):
            out = out[list(_meta.columns)]
    return out


@model(total_mem_usage)
def m_total_mem_usage(it, *a, **k):
    raise Unsupported("memory usage")


@model(methods.boundary_slice)
def m_boundary_slice(it, df, start, stop, right_boundary=True, left_boundary=True, kind=None):
    idx = df.index_ if not isinstance(df, SymIndex) else df.idx
    if not idx.defined:
        raise Unsupported("boundary_slice on undefined index")
    valid = []
    for v, x in zip(df.valid, idx.vals):
        x = I(x)
        conds = [v]
        if start is not None:
            conds.append(x >= I(start) if left_boundary else x > I(start))
        if stop is not None:
            conds.append(x <= I(stop) if right_boundary else x < I(stop))
        valid.append(And(*conds))
    return df._with(valid=valid)


@model(methods.loc)
def m_loc(it, df, iindexer, cindexer=None):
    idx = df.index_
    if not idx.defined:
        raise Unsupported("loc on undefined index")
    if isinstance(iindexer, slice):
        if iindexer.step not in (None, 1):
            raise Unsupported("loc step")
        out = m_boundary_slice(it, df, iindexer.start, iindexer.stop, True, True)
    elif isinstance(iindexer, (list, np.ndarray, pd.Index)):
        # df.loc[[labels]]: rows in the order of the labels; model only the membership (order-insensitive use)
        vals = [I(int(v)) for v in iindexer]
        valid = [And(v, Or(*[I(x) == w for w in vals])) for v, x in zip(df.valid, idx.vals)]
        out = df._with(valid=valid)
        if len(vals) > 1:
            # order of the result follows the label list
            keys = []
            for s, x in enumerate(idx.vals):
                pos = z3.IntVal(len(vals))
                for k in reversed(range(len(vals))):
                    pos = If(I(x) == vals[k], z3.IntVal(k), pos)
                keys.append((pos,) + (tuple(df.order[s]) if df.order is not None else (z3.IntVal(s),)))
            out = SymFrame(out.cols, out.valid, out.index_, out.prov, keys) if isinstance(out, SymFrame) else SymSeries(out.name, out.col, out.valid, out.index_, out.prov, keys)
    elif iindexer is None:
        out = df
    else:
        raise Unsupported(f"loc indexer {type(iindexer).__name__}")
    if cindexer is not None:
        if isinstance(cindexer, slice):
            raise Unsupported("loc column slice")
        out = out[cindexer]
    return out


@model(methods.try_loc)
def m_try_loc(it, df, iindexer, cindexer=None):
    return m_loc(it, df, iindexer, cindexer)


@model(methods.assign_index)
def m_assign_index(it, df, ind):
    if not isinstance(ind, SymIndex) or ind.prov != df.prov:
        raise Unsupported("assign_index with unaligned index")
    return df._with(index=ind.idx)


@model(methods.fillna_check)
def m_fillna_check(it, df, method, check=True):
    from .core import decide

    out = getattr(df, method)()
    if check:
        cols = [out.col] if isinstance(out, SymSeries) else [c for _, c in out.cols]
        allnull = Or(*[And(*[Or(Not(v), n) for v, n in zip(out.valid, c.nulls)]) for c in cols])
        if decide(allnull):
            raise ValueError("All NaN partition encountered in `fillna`. Try using ``df.repartition`` to increase the partition size")
    return out


@model(split_evenly)
def m_split_evenly(it, df, k):
    # rows rank r of N go to piece floor(r * k / N) ... dask: np.array_split semantics via boundaries
    # dask.dataframe.core.split_evenly: divisions = np.linspace(0, len(df), k + 1).astype(int); piece i = df.iloc[divisions[i]:divisions[i+1]]
    n = count(df.valid)
    r = ranks(df.valid, df.order)
    out = {}
    for i in range(k):
        # int(linspace(0, n, k+1)[i]) == floor(i * n / k) for non-negative ints
        lo = (i * n) / k
        hi = ((i + 1) * n) / k
        out[i] = df._with(valid=[And(v, ri >= lo, ri < hi) for v, ri in zip(df.valid, r)])
    return out


@model(methods._cum_aggregate_apply)
def m_cum_aggregate_apply(it, aggregate, x, y):
    if y is None:
        return x
    if x is None:
        return y
    return it.call(aggregate, [x, y], {})


def _cum_agg(op):
    def m(it, x, y):
        # dask: x, y are either partitions (Series/Frame) and a "previous last" scalar / label series
        if y is None:
            return x
        if x is None:
            return y
        if isinstance(x, (SymSeries, SymFrame)):
            return _cum_apply(x, y, op)
        if isinstance(x, SymScalar) and isinstance(y, SymScalar):
            return _cum_scalar(x, y, op)
        if isinstance(x, SymLabelSeries) and isinstance(y, SymLabelSeries):
            return SymLabelSeries(x.labels, [_cum_scalar(SymScalar(a), SymScalar(b), op).cell for a, b in zip(x.cells_, y.cells_)], x.name)
        raise Unsupported("cumulative aggregate operands")

    return m


def _cum_scalar(x, y, op):
    a, b = x.cell, y.cell
    if op == "sum":
        # pandas: x + y with NaN-skipping handled upstream (TakeLast ffill) -> plain add, NaN propagates
        v = a.num() + b.num()
        return SymScalar(Cell(v, Or(a.null, b.null), "f" if "f" in (a.kind, b.kind) else "i"))
    better = (b.num() > a.num()) if op == "max" else (b.num() < a.num())
    # dask cummax_aggregate: x.where((x > y) | x.isnull(), y) for frames; max(x, y) for scalars
    v = If(better, b.num(), a.num())
    return SymScalar(Cell(v, Or(a.null, b.null), a.kind))


def _cum_apply(part, prev, op):
    """cumsum_aggregate(x, y) = x + y (NaN stays NaN); cummax_aggregate: x.where((x > y) | x.isnull(), y)"""
    def one(series, p):
        p = p.cell if isinstance(p, SymScalar) else p
        out = []
        for c in series.cells():
            if op == "sum":
                out.append(Cell(c.num() + p.num(), Or(c.null, p.null), "f" if "f" in (c.kind, p.kind) else c.kind))
            else:
                gt = (c.num() > p.num()) if op == "max" else (c.num() < p.num())
                keep = Or(And(Not(c.null), Not(p.null), gt), c.null)
                out.append(Cell(If(keep, c.num(), p.num()), If(keep, c.null, p.null), c.kind))
        return series._with(col=Col.from_cells(out))

    if isinstance(part, SymSeries):
        if not isinstance(prev, SymScalar):
            raise Unsupported("cumulative previous value kind")
        return one(part, prev)
    if not isinstance(prev, SymLabelSeries):
        raise Unsupported("cumulative previous value kind")
    cols = []
    for k, c in part.cols:
        s = SymSeries(k, c, **part._row_attrs())
        cols.append((k, one(s, prev[k]).col))
    return part._with(cols=cols)


MODELS[methods.cummax_aggregate] = _cum_agg("max")
MODELS[methods.cummin_aggregate] = _cum_agg("min")


@model(methods.unique)
def m_unique(it, x, series_name=None):
    out = x.drop_duplicates()
    return out._with(name=series_name, index=Idx.undefined(out.nslots))


@model(methods.value_counts_combine)
def m_vc_combine(it, x, sort=True, ascending=False, **groupby_kwargs):
    # x: concatenated per-partition value_counts (index = value, values = counts) -> groupby(level=0).sum()
    return _vc_sum(x, groupby_kwargs.get("dropna", True))


@model(methods.value_counts_aggregate)
def m_vc_aggregate(it, x, total_length=None, sort=True, ascending=False, normalize=False, **groupby_kwargs):
    out = _vc_sum(x, groupby_kwargs.get("dropna", True))
    if normalize:
        # `out /= total_length if total_length is not None else out.sum()` of the real function
        from .core import lit_cell, cell_binop, count as count_

        if total_length is None:
            tot = Cell(Sum([If(v, c.num(), z3.IntVal(0)) for v, c in zip(out.valid, out.cells())]), F, "i")
        elif isinstance(total_length, SymScalar):
            tot = total_length.cell
        else:
            tot = lit_cell(total_length)
        out = SymSeries("proportion", Col.from_cells([cell_binop("truediv", c, tot) for c in out.cells()], "f"), out.valid, out.index_, out.prov, None)
    return out


def _vc_sum(x, dropna=True):
    """x.groupby(level=0, dropna=dropna).sum(): with dropna (pandas' default) the rows under the missing label are discarded"""
    from .groupby import group_reduce
    from .core import NAN_LABEL

    keys = [[Cell(I(v), F, "i") for v in x.index_.vals]]
    valid = list(x.valid)
    if dropna and getattr(x.index_, "nan", False):
        valid = [And(v, Not(I(l) == NAN_LABEL)) for v, l in zip(valid, x.index_.vals)]
    first, aggs = group_reduce(keys, valid, x.order, [("sum", x.cells())])
    return SymSeries(x.name, Col.from_cells(aggs[0], "i"), first, x.index_, [("vc", p) for p in x.prov], None)


def _register_fused():
    from dask_expr._expr import Fused

    def m_fused_execute(it, graph, name, *deps):
        """Fused._execute_task(graph, name, *deps): `graph["_i"] = dep`, then dask.core.get(graph, name) - evaluated
        by this interpreter so that literals inside the fused sub-graph become symbolic too"""
        sub = dict(graph)
        inner = Interp(sub, it.env, parent=it)
        for i, dep in enumerate(deps):
            inner.memo["_" + str(i)] = dep
            sub["_" + str(i)] = None
        out = inner.get(name)
        it.calls.extend(inner.calls)
        return out

    m_fused_execute.always = True
    MODELS[Fused._execute_task] = m_fused_execute


# ---------------------------------------------------------------------------------------------- patching

_PATCHED = False


def _wrap(real, m):
    def wrapper(*a, **kw):
        if has_sym(a) or has_sym(kw):
            return m(Interp({}, None), *a, **kw)
        return real(*a, **kw)

    wrapper.__name__ = getattr(real, "__name__", "wrapped")
    wrapper.__qualname__ = getattr(real, "__qualname__", "wrapped")
    wrapper.__wrapped_real__ = real
    wrapper.__module__ = getattr(real, "__module__", None)
    return wrapper


def patch():
    """Replace references to modelled leaf callables inside dask_expr (module globals and class attributes) and in
    dask.dataframe.methods/core by sym-aware wrappers that fall through to the real function for pandas inputs."""
    global _PATCHED
    if _PATCHED:
        return
    _PATCHED = True
    import dask_expr  # noqa
    import dask_expr._collection, dask_expr._groupby, dask_expr._merge, dask_expr._shuffle, dask_expr._concat  # noqa
    import dask_expr._cumulative, dask_expr._indexing, dask_expr._repartition, dask_expr._rolling, dask_expr._reductions  # noqa
    from . import relational, groupby, shuffle  # noqa  (register their models)

    _register_fused()

    wrappers = {}

    def wrapper_for(f):
        try:
            m = MODELS.get(f)
        except TypeError:
            return None
        if m is None:
            return None
        if f not in wrappers:
            w = _wrap(f, m)
            wrappers[f] = w
        return wrappers[f]

    skip_builtin = {builtins.len, builtins.sum}
    mods = [m for n, m in list(sys.modules.items()) if n.startswith("dask_expr") and m is not None]
    for mod in mods:
        for attr, val in list(vars(mod).items()):
            if isinstance(val, (types.FunctionType, types.BuiltinFunctionType)) and val not in skip_builtin:
                w = wrapper_for(val)
                if w is not None:
                    setattr(mod, attr, w)
            elif isinstance(val, type) and val.__module__.startswith("dask_expr"):
                for ca, cv in list(vars(val).items()):
                    raw = cv.__func__ if isinstance(cv, staticmethod) else cv
                    if isinstance(raw, (types.FunctionType, types.BuiltinFunctionType)):
                        w = wrapper_for(raw)
                        if w is not None:
                            setattr(val, ca, staticmethod(w))
    # leaf modules referenced by attribute from inside real task functions (methods.concat, ...)
    import dask.dataframe.groupby as ddgroupby

    for lib in (methods, ddcore, ddgroupby):
        for attr, val in list(vars(lib).items()):
            if isinstance(val, types.FunctionType):
                w = wrapper_for(val)
                if w is not None:
                    setattr(lib, attr, w)
    # wrappers are themselves dispatchable
    for f, w in wrappers.items():
        MODELS[w] = MODELS[f]
