"""groupby single aggregations over symbolic frames (one output slot per input slot; the slot is valid iff it is
the first valid row of its group)."""
from __future__ import annotations

import z3

from .core import And, Cell, Col, F, I, Idx, If, Not, Or, Sum, SymBase, T, Unsupported, StructuralError, cell_binop, cell_eq, is_f
from . import core


def group_reduce(keys, valid, order, aggs, dropna=True):
    """keys: list of key columns (each a list of cells); aggs: list of (name, cells).
    -> (first flags, [cells per agg]) ; groups with a null key are dropped (dropna=True)"""
    n = len(valid)
    keyrows = [[k[i] for k in keys] for i in range(n)]
    ok = [And(valid[i], *[Not(c.null) for c in keyrows[i]]) if dropna else valid[i] for i in range(n)]
    member = [[None] * n for _ in range(n)]
    for i in range(n):
        for j in range(n):
            if j == i:
                member[i][j] = ok[j]
            elif j < i and member[j][i] is not None:
                member[i][j] = And(ok[i], ok[j], *[cell_eq(a, b) for a, b in zip(keyrows[i], keyrows[j])])
            else:
                member[i][j] = And(ok[i], ok[j], *[cell_eq(a, b) for a, b in zip(keyrows[i], keyrows[j])])
    first = []
    for i in range(n):
        earlier = [member[i][j] for j in range(i)]
        first.append(And(ok[i], Not(Or(*earlier))))
    out = []
    for name, cells in aggs:
        res = []
        for i in range(n):
            ms = member[i]
            if name == "sum":
                kind = "f" if any(c.kind == "f" for c in cells) else "i"
                res.append(Cell(Sum([If(And(ms[j], Not(cells[j].null)), cells[j].num(), z3.IntVal(0)) for j in range(n)]), F, kind))
            elif name == "count":
                res.append(Cell(Sum([If(And(ms[j], Not(cells[j].null)), z3.IntVal(1), z3.IntVal(0)) for j in range(n)]), F, "i"))
            elif name == "size":
                res.append(Cell(Sum([If(ms[j], z3.IntVal(1), z3.IntVal(0)) for j in range(n)]), F, "i"))
            elif name in ("min", "max"):
                has, cur = F, z3.IntVal(0)
                for j in range(n):
                    p = And(ms[j], Not(cells[j].null))
                    if is_f(p):
                        continue
                    x = cells[j].num()
                    better = (x < cur) if name == "min" else (x > cur)
                    cur = If(p, If(has, If(better, x, cur), x), cur)
                    has = Or(has, p)
                kind = "f" if any(c.kind == "f" for c in cells) else "i"
                res.append(Cell(cur, Not(has), kind))
            elif name == "mean":
                s = Sum([If(And(ms[j], Not(cells[j].null)), cells[j].num(), z3.IntVal(0)) for j in range(n)])
                c = Sum([If(And(ms[j], Not(cells[j].null)), z3.IntVal(1), z3.IntVal(0)) for j in range(n)])
                res.append(cell_binop("truediv", Cell(s, F, "f"), Cell(c, F, "i")))
            elif name == "median":
                # order statistics inside the group: rank by (value, slot); the mean of the two middle members
                pres = [And(ms[j], Not(cells[j].null)) for j in range(n)]
                k = Sum([If(p, z3.IntVal(1), z3.IntVal(0)) for p in pres])
                lo_r, hi_r = (k - 1) / 2, k / 2
                lo = hi = z3.IntVal(0)
                for j in range(n):
                    if is_f(pres[j]):
                        continue
                    xj = cells[j].num()
                    rj = Sum([If(And(pres[m], Or(cells[m].num() < xj, And(cells[m].num() == xj, T if m < j else F))), z3.IntVal(1), z3.IntVal(0)) for m in range(n) if m != j])
                    lo = If(And(pres[j], rj == lo_r), xj, lo)
                    hi = If(And(pres[j], rj == hi_r), xj, hi)
                c = cell_binop("truediv", Cell(lo + hi, F, "f"), Cell(z3.IntVal(2), F, "i"))
                res.append(Cell(c.val, Or(c.null, k == 0), "f"))
            else:
                raise Unsupported(f"groupby aggregation {name}")
        out.append(res)
    return first, out


class SymGroupBy:
    def __init__(self, obj, by=None, level=None, sort=True, dropna=True, observed=None, group_keys=True, selection=None, **kw):
        from .frame import SymFrame, SymSeries

        if kw.get("axis", 0) not in (0, "index") or kw.get("as_index", True) is not True:
            raise Unsupported("groupby axis / as_index")
        self.dropna = dropna is not False
        self.obj, self.sort, self.selection = obj, bool(sort), selection
        self.by, self.level = by, level
        if by is not None and level is not None:
            raise Unsupported("groupby by and level")
        if by is not None:
            if isinstance(by, (tuple, list)):
                by = list(by)
            else:
                by = [by]
            if any(isinstance(b, SymBase) for b in by):
                # grouping by an aligned series
                if len(by) != 1 or not isinstance(by[0], SymSeries) or by[0].prov != obj.prov:
                    raise Unsupported("groupby by unaligned / multiple series")
                self.keycols = [(by[0].name, by[0].col)]
                self.key_in_frame = False
            else:
                if not isinstance(obj, SymFrame):
                    raise Unsupported("series groupby by column label")
                idxname = obj.index_.name
                cols = []
                for b in by:
                    if b in obj.labels:
                        cols.append((b, obj.col(b)))
                    elif idxname is not None and b == idxname:
                        if not obj.index_.defined:
                            raise Unsupported("groupby on undefined index")
                        cols.append((b, obj.index_.column()))
                    else:
                        raise StructuralError(f"groupby key {b!r} not in {obj.labels}")
                self.keycols = cols
                self.key_in_frame = True
        else:
            levels = level if isinstance(level, (list, tuple)) else [level]
            idx = obj.index_ if not hasattr(obj, "idx") else obj.idx
            if not idx.defined:
                raise Unsupported("groupby(level) on undefined index")
            names = idx.name if isinstance(idx.name, list) else [idx.name]
            if idx.labels:
                raise Unsupported("groupby on label index")
            cols = []
            for lv in levels:
                if not isinstance(lv, int) or lv >= len(names):
                    raise Unsupported(f"groupby level {lv}")
                if isinstance(idx.name, list):
                    cols.append((names[lv], Col("i", [I(v[lv]) for v in idx.vals])))
                else:
                    cols.append((names[lv], idx.column()))
            self.keycols = cols
            self.key_in_frame = False
        if len(self.keycols) != 1 and by is None and not isinstance(idx.name, list):
            raise Unsupported("multi-level groupby on flat index")

    def __getitem__(self, key):
        g = object.__new__(SymGroupBy)
        g.__dict__.update(self.__dict__)
        g.selection = key
        return g

    def __getattr__(self, key):
        if key.startswith("_"):
            raise AttributeError(key)
        obj = self.__dict__.get("obj")
        if obj is not None and hasattr(obj, "labels") and key in obj.labels:
            return self[key]
        raise AttributeError(key)

    def _value_cols(self):
        from .frame import SymFrame

        obj = self.obj
        if not isinstance(obj, SymFrame):
            return [(obj.name, obj.col)], True
        keynames = [k for k, _ in self.keycols] if self.key_in_frame else []
        sel = self.selection
        if hasattr(sel, "tolist") and not isinstance(sel, str):
            sel = list(sel)  # pd.Index of labels
        if sel is None:
            return [(k, c) for k, c in obj.cols if k not in keynames], False
        if isinstance(sel, (list, tuple)):
            return [(k, obj.col(k)) for k in sel], False
        return [(sel, obj.col(sel))], True

    def _agg(self, name):
        from .frame import SymFrame, SymSeries

        obj = self.obj
        vcols, as_series = self._value_cols()
        keys = [c.cells() for _, c in self.keycols]
        aggs = [(name, c.cells()) for _, c in vcols] if name != "size" else [("size", self.keycols[0][1].cells())]
        first, res = group_reduce(keys, obj.valid, None, aggs, self.dropna)
        nan_group = not self.dropna and any(c.nullable for _, c in self.keycols)
        if nan_group and len(self.keycols) != 1:
            raise Unsupported("multi-key groupby(dropna=False)")
        if nan_group:
            idx = Idx([If(c.null, core.NAN_LABEL, c.num()) for c in self.keycols[0][1].cells()], self.keycols[0][0], True, nan=True)
            keys = [[Cell(v, F, "i") for v in idx.vals]]
        elif len(self.keycols) == 1:
            idx = Idx([c.num() for c in self.keycols[0][1].cells()], self.keycols[0][0], True)
        else:
            idx = Idx([tuple(k[i].num() for k in keys) for i in range(len(first))], [k for k, _ in self.keycols], True)
        prov = [("g", p) for p in obj.prov]
        order = None
        if self.sort:
            order = [tuple(k[i].num() for k in keys) for i in range(len(first))]
        else:
            order = "unspecified" if obj.order is not None else None
        if name == "size":
            return SymSeries(None if not as_series else vcols[0][0], Col.from_cells(res[0], "i"), first, idx, prov, order)
        if as_series:
            return SymSeries(vcols[0][0], Col.from_cells(res[0]), first, idx, prov, order)
        return SymFrame([(k, Col.from_cells(r)) for (k, _), r in zip(vcols, res)], first, idx, prov, order)

    def sum(self, numeric_only=False, min_count=0, **kw):
        if min_count:
            raise Unsupported("min_count")
        return self._agg("sum")

    def count(self, **kw):
        return self._agg("count")

    def min(self, numeric_only=False, **kw):
        return self._agg("min")

    def max(self, numeric_only=False, **kw):
        return self._agg("max")

    def mean(self, numeric_only=False, **kw):
        return self._agg("mean")

    def size(self, **kw):
        return self._agg("size")

    def median(self, numeric_only=False, **kw):
        return self._agg("median")

    def first(self, **kw):
        raise Unsupported("groupby first")

    last = first

    def var(self, ddof=1, numeric_only=False, **kw):
        # the textbook sum-of-squares formula, taken from dask's own helpers applied to the whole table at once
        from dask.dataframe.groupby import _var_agg, _var_chunk
        from .frame import SymFrame

        vcols, as_series = self._value_cols()
        if not isinstance(self.obj, SymFrame) or not self.key_in_frame:
            raise Unsupported("groupby var on a series / by level")
        keynames = [k for k, _ in self.keycols]
        df = self.obj[keynames + [k for k, _ in vcols]]
        chunk = _var_chunk(df, *keynames, observed=False, dropna=self.dropna)
        out = _var_agg(chunk, levels=0 if len(keynames) == 1 else list(range(len(keynames))), ddof=ddof, sort=self.sort, observed=False, dropna=self.dropna)
        return out[vcols[0][0]] if as_series else out

    def std(self, ddof=1, numeric_only=False, **kw):
        return self.var(ddof=ddof).sqrt()

    _AGGS = ("sum", "count", "min", "max", "mean", "size", "median", "var", "std")

    def agg(self, arg=None, *a, **kw):
        from .frame import SymFrame

        kw = {k: v for k, v in kw.items() if k not in ("split_every", "split_out", "shuffle_method")}  # dask-only knobs of the program text
        if a or kw or arg is None:
            raise Unsupported("groupby agg with extra arguments / named aggregation")
        vcols, as_series = self._value_cols()

        def one(col, func):
            if not isinstance(func, str) or func not in self._AGGS:
                raise Unsupported(f"groupby agg function {func!r}")
            g = self if as_series else self[col]
            return getattr(g, func)()

        if isinstance(arg, str):
            if arg not in self._AGGS:
                raise Unsupported(f"groupby agg function {arg!r}")
            return getattr(self, arg)()
        out = {}
        if isinstance(arg, (list, tuple)):
            for col, _ in vcols:
                for f in arg:
                    out[f if as_series else (col, f)] = one(col, f)
        elif isinstance(arg, dict):
            if as_series:
                raise Unsupported("series groupby agg with a dict")
            nested = any(isinstance(v, (list, tuple)) for v in arg.values())
            for col, fs in arg.items():
                for f in (fs if isinstance(fs, (list, tuple)) else [fs]):
                    out[(col, f) if nested else col] = one(col, f)
        else:
            raise Unsupported("groupby agg spec")
        return SymFrame(out)

    aggregate = agg

    def apply(self, *a, **kw):
        raise Unsupported("groupby apply")

    transform = apply
