"""groupby single aggregations over symbolic frames (one output slot per input slot; the slot is valid iff it is
the first valid row of its group)."""
from __future__ import annotations

import z3

from .core import And, Cell, Col, F, I, Idx, If, Not, Or, Sum, SymBase, T, Unsupported, StructuralError, cell_binop, cell_eq, is_f
from . import core


def group_reduce(keys, valid, order, aggs):
    """keys: list of key columns (each a list of cells); aggs: list of (name, cells).
    -> (first flags, [cells per agg]) ; groups with a null key are dropped (dropna=True)"""
    n = len(valid)
    keyrows = [[k[i] for k in keys] for i in range(n)]
    ok = [And(valid[i], *[Not(c.null) for c in keyrows[i]]) for i in range(n)]
    member = [[None] * n for _ in range(n)]
    for i in range(n):
        for j in range(n):
            if j == i:
                member[i][j] = ok[j]
            elif j < i and member[j][i] is not None:
                member[i][j] = And(ok[i], ok[j], *[cell_eq(a, b) for a, b in zip(keyrows[i], keyrows[j])])
            else:
                member[i][j] = And(ok[i], ok[j], *[cell_eq(a, b) for a, b in zip(keyrows[i], keyrows[j])])
    first = []
    for i in range(n):
        earlier = [member[i][j] for j in range(i)]
        first.append(And(ok[i], Not(Or(*earlier))))
    out = []
    for name, cells in aggs:
        res = []
        for i in range(n):
            ms = member[i]
            if name == "sum":
                kind = "f" if any(c.kind == "f" for c in cells) else "i"
                res.append(Cell(Sum([If(And(ms[j], Not(cells[j].null)), cells[j].num(), z3.IntVal(0)) for j in range(n)]), F, kind))
            elif name == "count":
                res.append(Cell(Sum([If(And(ms[j], Not(cells[j].null)), z3.IntVal(1), z3.IntVal(0)) for j in range(n)]), F, "i"))
            elif name == "size":
                res.append(Cell(Sum([If(ms[j], z3.IntVal(1), z3.IntVal(0)) for j in range(n)]), F, "i"))
            elif name in ("min", "max"):
                has, cur = F, z3.IntVal(0)
                for j in range(n):
                    p = And(ms[j], Not(cells[j].null))
                    if is_f(p):
                        continue
                    x = cells[j].num()
                    better = (x < cur) if name == "min" else (x > cur)
                    cur = If(p, If(has, If(better, x, cur), x), cur)
                    has = Or(has, p)
                kind = "f" if any(c.kind == "f" for c in cells) else "i"
                res.append(Cell(cur, Not(has), kind))
            elif name == "mean":
                s = Sum([If(And(ms[j], Not(cells[j].null)), cells[j].num(), z3.IntVal(0)) for j in range(n)])
                c = Sum([If(And(ms[j], Not(cells[j].null)), z3.IntVal(1), z3.IntVal(0)) for j in range(n)])
                res.append(cell_binop("truediv", Cell(s, F, "f"), Cell(c, F, "i")))
            elif name == "median":
                # order statistics inside the group: rank by (value, slot); the mean of the two middle members
                pres = [And(ms[j], Not(cells[j].null)) for j in range(n)]
                k = Sum([If(p, z3.IntVal(1), z3.IntVal(0)) for p in pres])
                lo_r, hi_r = (k - 1) / 2, k / 2
                lo = hi = z3.IntVal(0)
                for j in range(n):
                    if is_f(pres[j]):
                        continue
                    xj = cells[j].num()
                    rj = Sum([If(And(pres[m], Or(cells[m].num() < xj, And(cells[m].num() == xj, T if m < j else F))), z3.IntVal(1), z3.IntVal(0)) for m in range(n) if m != j])
                    lo = If(And(pres[j], rj == lo_r), xj, lo)
                    hi = If(And(pres[j], rj == hi_r), xj, hi)
                c = cell_binop("truediv", Cell(lo + hi, F, "f"), Cell(z3.IntVal(2), F, "i"))
                res.append(Cell(c.val, Or(c.null, k == 0), "f"))
            else:
                raise Unsupported(f"groupby aggregation {name}")
        out.append(res)
    return first, out


class SymGroupBy:
    def __init__(self, obj, by=None, level=None, sort=True, dropna=True, observed=None, group_keys=True, selection=None, **kw):
        from .frame import SymFrame, SymSeries

        if kw.get("axis", 0) not in (0, "index") or kw.get("as_index", True) is not True:
            raise Unsupported("groupby axis / as_index")
        if dropna is False:
            raise Unsupported("groupby(dropna=False)")
        self.obj, self.sort, self.selection = obj, bool(sort), selection
        self.by, self.level = by, level
        if by is not None and level is not None:
            raise Unsupported("groupby by and level")
        if by is not None:
            if isinstance(by, (tuple, list)):
                by = list(by)
            else:
                by = [by]
            if any(isinstance(b, SymBase) for b in by):
                # grouping by an aligned series
                if len(by) != 1 or not isinstance(by[0], SymSeries) or by[0].prov != obj.prov:
                    raise Unsupported("groupby by unaligned / multiple series")
                self.keycols = [(by[0].name, by[0].col)]
                self.key_in_frame = False
            else:
                if not isinstance(obj, SymFrame):
                    raise Unsupported("series groupby by column label")
                idxname = obj.index_.name
                cols = []
                for b in by:
                    if b in obj.labels:
                        cols.append((b, obj.col(b)))
                    elif idxname is not None and b == idxname:
                        if not obj.index_.defined:
                            raise Unsupported("groupby on undefined index")
                        cols.append((b, Col("i", [I(v) for v in obj.index_.vals])))
                    else:
                        raise StructuralError(f"groupby key {b!r} not in {obj.labels}")
                self.keycols = cols
                self.key_in_frame = True
        else:
            levels = level if isinstance(level, (list, tuple)) else [level]
            idx = obj.index_ if not hasattr(obj, "idx") else obj.idx
            if not idx.defined:
                raise Unsupported("groupby(level) on undefined index")
            names = idx.name if isinstance(idx.name, list) else [idx.name]
            if idx.labels:
                raise Unsupported("groupby on label index")
            cols = []
            for lv in levels:
                if not isinstance(lv, int) or lv >= len(names):
                    raise Unsupported(f"groupby level {lv}")
                if isinstance(idx.name, list):
                    cols.append((names[lv], Col("i", [I(v[lv]) for v in idx.vals])))
                else:
                    cols.append((names[lv], Col("i", [I(v) for v in idx.vals])))
            self.keycols = cols
            self.key_in_frame = False
        if len(self.keycols) != 1 and by is None and not isinstance(idx.name, list):
            raise Unsupported("multi-level groupby on flat index")

    def __getitem__(self, key):
        g = object.__new__(SymGroupBy)
        g.__dict__.update(self.__dict__)
        g.selection = key
        return g

    def __getattr__(self, key):
        if key.startswith("_"):
            raise AttributeError(key)
        obj = self.__dict__.get("obj")
        if obj is not None and hasattr(obj, "labels") and key in obj.labels:
            return self[key]
        raise AttributeError(key)

    def _value_cols(self):
        from .frame import SymFrame

        obj = self.obj
        if not isinstance(obj, SymFrame):
            return [(obj.name, obj.col)], True
        keynames = [k for k, _ in self.keycols] if self.key_in_frame else []
        sel = self.selection
        if hasattr(sel, "tolist") and not isinstance(sel, str):
            sel = list(sel)  # pd.Index of labels
        if sel is None:
            return [(k, c) for k, c in obj.cols if k not in keynames], False
        if isinstance(sel, (list, tuple)):
            return [(k, obj.col(k)) for k in sel], False
        return [(sel, obj.col(sel))], True

    def _agg(self, name):
        from .frame import SymFrame, SymSeries

        obj = self.obj
        vcols, as_series = self._value_cols()
        keys = [c.cells() for _, c in self.keycols]
        aggs = [(name, c.cells()) for _, c in vcols] if name != "size" else [("size", self.keycols[0][1].cells())]
        first, res = group_reduce(keys, obj.valid, None, aggs)
        if len(self.keycols) == 1:
            idx = Idx([c.num() for c in self.keycols[0][1].cells()], self.keycols[0][0], True)
        else:
            idx = Idx([tuple(k[i].num() for k in keys) for i in range(len(first))], [k for k, _ in self.keycols], True)
        prov = [("g", p) for p in obj.prov]
        order = None
        if self.sort:
            order = [tuple(k[i].num() for k in keys) for i in range(len(first))]
        else:
            order = "unspecified" if obj.order is not None else None
        if name == "size":
            return SymSeries(None if not as_series else vcols[0][0], Col.from_cells(res[0], "i"), first, idx, prov, order)
        if as_series:
            return SymSeries(vcols[0][0], Col.from_cells(res[0]), first, idx, prov, order)
        return SymFrame([(k, Col.from_cells(r)) for (k, _), r in zip(vcols, res)], first, idx, prov, order)

    def sum(self, numeric_only=False, min_count=0, **kw):
        if min_count:
            raise Unsupported("min_count")
        return self._agg("sum")

    def count(self, **kw):
        return self._agg("count")

    def min(self, numeric_only=False, **kw):
        return self._agg("min")

    def max(self, numeric_only=False, **kw):
        return self._agg("max")

    def mean(self, numeric_only=False, **kw):
        return self._agg("mean")

    def size(self, **kw):
        return self._agg("size")

    def median(self, numeric_only=False, **kw):
        return self._agg("median")

    def first(self, **kw):
        raise Unsupported("groupby first")

    last = first

    def agg(self, *a, **kw):
        raise Unsupported("groupby agg")

    aggregate = agg
    apply = agg
    transform = agg
