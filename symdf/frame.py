"""SymSeries / SymFrame / SymIndex / SymLabelSeries: the pandas API subset used by dask-expr tasks and by the
reference semantics, over symbolic cells (see core.py)."""
from __future__ import annotations

import operator
from collections import OrderedDict

import pandas as pd
import z3

from . import core
from .core import (
    ModelledMisalignment, MissingLabel, And, B, Cell, Col, F, I, Idx, If, Not, Or, Sum, SymBase, SymScalar, T, Unsupported, StructuralError,
    _DType, _RowsMixin, _dtype_kind, _install_binops, cell_binop, cell_eq, count, decide, is_f, is_null_literal,
    is_t, lit_cell, ranks, same_valid, uf, before,
)


_NO_DEFAULT = object()


def _undef_if(index, cond=True):
    return Idx.undefined(len(index), index.name) if cond else index


# ---------------------------------------------------------------------------------------------- reductions

def red_sum(cells, valid, skipna=True, min_count=0):
    kind = "f" if any(c.kind == "f" for c in cells) else "i"
    terms = [If(And(v, Not(c.null)), c.num(), z3.IntVal(0)) for c, v in zip(cells, valid)]
    null = F
    if not skipna:
        null = Or(*[And(v, c.null) for c, v in zip(cells, valid)])
    return Cell(Sum(terms), null, kind)


def red_count(cells, valid):
    return Cell(Sum([If(And(v, Not(c.null)), z3.IntVal(1), z3.IntVal(0)) for c, v in zip(cells, valid)]), F, "i")


def red_minmax(cells, valid, which, skipna=True):
    kind = "b" if cells and all(c.kind == "b" for c in cells) else ("f" if any(c.kind == "f" for c in cells) else "i")
    has, cur = F, z3.IntVal(0)
    for c, v in zip(cells, valid):
        p = And(v, Not(c.null))
        x = c.num()
        better = (x < cur) if which == "min" else (x > cur)
        cur = If(p, If(has, If(better, x, cur), x), cur)
        has = Or(has, p)
    null = Not(has)
    if not skipna:
        null = Or(null, *[And(v, c.null) for c, v in zip(cells, valid)])
    if kind == "b":
        return Cell(cur != 0, null, "b")
    return Cell(cur, null, kind)


def red_anyall(cells, valid, which):
    truth = [And(v, Not(c.null), (c.val if c.kind == "b" else c.num() != 0)) for c, v in zip(cells, valid)]
    if which == "any":
        return Cell(Or(*truth), F, "b")
    # all: every valid row is truthy (NaN is truthy in pandas' all with skipna=True -> skipped)
    ok = [Or(Not(v), c.null, (c.val if c.kind == "b" else c.num() != 0)) for c, v in zip(cells, valid)]
    return Cell(And(*ok), F, "b")


def red_mean(cells, valid):
    s, c = red_sum(cells, valid), red_count(cells, valid)
    return cell_binop("truediv", s, c)


def _reduce(name, cells, valid, **kw):
    skipna = kw.get("skipna", True)
    if skipna is None:
        skipna = True
    if name == "sum":
        if kw.get("min_count", 0):
            raise Unsupported("min_count")
        return red_sum(cells, valid, skipna)
    if name == "count":
        return red_count(cells, valid)
    if name in ("min", "max"):
        return red_minmax(cells, valid, name, skipna)
    if name in ("any", "all"):
        return red_anyall(cells, valid, name)
    if name == "mean":
        return red_mean(cells, valid)
    raise Unsupported(f"reduction {name}")


# ---------------------------------------------------------------------------------------------- Series

class SymSeries(_RowsMixin, SymBase):
    ndim = 1

    def __init__(self, name, col: Col, valid, index: Idx, prov, order=None):
        self.name, self.col, self.valid, self.index_, self.prov, self.order = name, col, list(valid), index, list(prov), order
        n = len(self.valid)
        if not (len(col) == n and len(index) == n and len(self.prov) == n):
            raise AssertionError("inconsistent slot counts")

    # pandas-likeness markers (dask.utils.is_series_like looks for these attributes on the type)
    def groupby(self, by=None, level=None, **kw):
        from .groupby import SymGroupBy

        return SymGroupBy(self, by=by, level=level, **kw)

    @property
    def dtype(self):
        return _DType(self.col.kind)

    @property
    def dtypes(self):
        return self.dtype

    @property
    def index(self):
        return SymIndex(self.index_, self.valid, self.prov, self.order, owner=self)

    @index.setter
    def index(self, value):
        if isinstance(value, SymIndex) and value.prov == self.prov:
            self.index_ = value.idx
        else:
            raise Unsupported("assigning a new index")

    @property
    def _constructor(self):
        raise Unsupported("Series._constructor")

    def _row_attrs(self):
        return dict(valid=self.valid, index=self.index_, prov=self.prov, order=self.order)

    def _with(self, col=None, name=..., valid=None, index=None):
        return SymSeries(self.name if name is ... else name, col if col is not None else self.col,
                         valid if valid is not None else self.valid, index if index is not None else self.index_, self.prov, self.order)

    def copy(self, deep=True):
        return self._with()

    def cells(self):
        return self.col.cells()

    # ---- elementwise
    def _bin(self, other, op, reverse=False):
        if isinstance(other, SymFrame):
            return NotImplemented
        if isinstance(other, SymLabelSeries):
            raise Unsupported("series op label-series")
        valid = None
        if isinstance(other, SymSeries):
            if self.prov != other.prov:
                a2, b2 = align_rows(self, other)
                return a2._bin(b2, op, reverse)
            if not same_valid(self.valid, other.valid):
                valid = self._align_valid(other, op)
            oc = other.cells()
            name = self.name if self.name == other.name else None
        else:
            c = lit_cell(other)
            oc = [c] * self.nslots
            name = self.name
        out = []
        for k, (a, b) in enumerate(zip(self.cells(), oc)):
            if valid is not None:
                # label alignment (unique labels on this path): a row missing on one side is False for logical
                # operators and NaN for arithmetic
                va, vb = self.valid[k], other.valid[k]
                if op in ("and_", "or_", "xor"):
                    a = Cell(And(va, a.val), a.null, a.kind) if a.kind == "b" else a
                    b = Cell(And(vb, b.val), b.null, b.kind) if b.kind == "b" else b
                else:
                    a = Cell(a.val, Or(a.null, Not(va)), a.kind)
                    b = Cell(b.val, Or(b.null, Not(vb)), b.kind)
            a, b = (b, a) if reverse else (a, b)
            out.append(cell_binop(op, a, b))
        kind = None
        if not out:
            # no slots: the result kind cannot be read off the cells
            if op in ("lt", "le", "gt", "ge", "eq", "ne"):
                kind = "b"
            elif op in ("and_", "or_", "xor"):
                kind = "b" if self.col.kind == "b" else self.col.kind
            elif op == "truediv":
                kind = "f"
            else:
                kind = self.col.kind if self.col.kind != "b" else "i"
        res = self._with(col=Col.from_cells(out, kind), name=name)
        if valid is not None:
            res = res._with(valid=valid)
        return res

    def _align_valid(self, other, op):
        """operands are differently filtered views of the same rows: pandas aligns on labels"""
        if op in ("lt", "le", "gt", "ge", "eq", "ne"):
            raise Unsupported("comparison of differently filtered series (pandas raises unless identically labelled)")
        idx = self.index_
        if not idx.defined or idx.labels:
            raise Unsupported("alignment on an undefined index")
        n = self.nslots
        union = [Or(a, b) for a, b in zip(self.valid, other.valid)]
        differ = Or(*[z3.Xor(a, b) for a, b in zip(self.valid, other.valid)])
        dup = []
        for i in range(n):
            for j in range(i + 1, n):
                same = I(idx.vals[i]) == I(idx.vals[j])
                same = z3.simplify(same)
                if is_f(same):
                    continue
                dup.append(And(union[i], union[j], same))
        if dup and decide(And(differ, Or(*dup))):
            raise ModelledMisalignment("alignment of differently filtered operands with duplicate index labels")
        return union

        return self._with(col=Col.from_cells(out), name=name)

    def _named(self, opname, other, level=None, fill_value=None, axis=0):
        if fill_value is not None:
            raise Unsupported("fill_value")
        return self._bin(other, opname)

    def lt(self, other, **kw):
        return self._named("lt", other, **kw)

    def le(self, other, **kw):
        return self._named("le", other, **kw)

    def gt(self, other, **kw):
        return self._named("gt", other, **kw)

    def ge(self, other, **kw):
        return self._named("ge", other, **kw)

    def eq(self, other, **kw):
        return self._named("eq", other, **kw)

    def ne(self, other, **kw):
        return self._named("ne", other, **kw)

    def add(self, other, **kw):
        return self._named("add", other, **kw)

    def sub(self, other, **kw):
        return self._named("sub", other, **kw)

    def mul(self, other, **kw):
        return self._named("mul", other, **kw)

    def truediv(self, other, **kw):
        return self._named("truediv", other, **kw)

    div = truediv

    def __invert__(self):
        if self.col.kind != "b":
            raise Unsupported("~ on numeric series")
        return self._with(col=Col("b", [Not(v) for v in self.col.vals], self.col.nulls))

    def __neg__(self):
        return self._with(col=Col(self.col.kind if self.col.kind != "b" else "i", [-c.num() for c in self.cells()], self.col.nulls))

    def __pos__(self):
        return self._with()

    def abs(self):
        vals = [If(c.num() < 0, -c.num(), c.num()) for c in self.cells()]
        return self._with(col=Col(self.col.kind if self.col.kind != "b" else "i", vals, self.col.nulls))

    __abs__ = abs

    def sqrt(self):
        cells = [Cell(uf("SQRT", c.num()), Or(c.null, c.num() < 0), "f") for c in self.cells()]
        return self._with(col=Col.from_cells(cells, "f"))

    def isna(self):
        return self._with(col=Col("b", list(self.col.nulls)))

    isnull = isna

    def notnull(self):
        return self._with(col=Col("b", [Not(n) for n in self.col.nulls]))

    notna = notnull

    def fillna(self, value=None, **kw):
        if kw.get("method") is not None or value is None:
            raise Unsupported("fillna(method=)")
        if isinstance(value, SymSeries):
            fc = value.cells() if self.prov == value.prov else reindex_cells(value, self)
        elif isinstance(value, dict):
            # on a Series the keys of a mapping are *index labels*
            if not self.index_.defined or self.index_.labels:
                raise Unsupported("fillna mapping on a series with an undefined index")
            fc = []
            for i in range(self.nslots):
                val, null = z3.IntVal(0), T
                for k, v in value.items():
                    if isinstance(k, int) and not isinstance(k, bool):
                        m = I(self.index_.vals[i]) == int(k)
                        lc = lit_cell(v)
                        val, null = If(m, lc.num(), val), If(m, lc.null, null)
                fc.append(Cell(val, null, "f"))
        elif isinstance(value, (SymLabelSeries, SymFrame)):
            raise Unsupported("fillna mapping on series")
        else:
            fc = [lit_cell(value)] * self.nslots
        out = []
        for c, f in zip(self.cells(), fc):
            out.append(Cell(If(c.null, f.num(), c.num()) if self.col.kind != "b" else If(c.null, f.val, c.val), And(c.null, f.null), self.col.kind))
        return self._with(col=Col.from_cells(out, self.col.kind))

    def isin(self, values):
        try:
            vals = list(values)
        except TypeError:
            raise Unsupported("isin arg")
        if any(is_null_literal(v) for v in vals):
            raise Unsupported("isin with NaN")
        vals = [v for v in vals if not isinstance(v, str)]  # a string never equals a numeric cell
        lits = [lit_cell(v) for v in vals]
        out = [And(Not(c.null), Or(*[c.num() == l.num() for l in lits])) for c in self.cells()]
        return self._with(col=Col("b", out))

    def round(self, decimals=0, *a, **kw):
        # numeric cells of the model are integer-valued: rounding to >= 0 decimals is the identity
        if not isinstance(decimals, int):
            raise StructuralError(f"Series.round: {type(decimals).__name__!r} object cannot be interpreted as an integer")
        if decimals < 0:
            raise Unsupported("round to negative decimals")
        return self._with()

    def replace(self, to_replace=None, value=None, **kw):
        if kw.get("regex"):
            raise Unsupported("replace(regex=)")
        if isinstance(to_replace, dict):
            if value is not None:
                raise Unsupported("replace(dict, value)")
            if any(isinstance(v, dict) for v in to_replace.values()):
                raise StructuralError("to_replace and value cannot be dict-like for Series.replace")
            pairs = list(to_replace.items())
        elif isinstance(to_replace, (list, tuple)) or isinstance(value, (list, tuple, dict)) or isinstance(to_replace, SymBase) or isinstance(value, SymBase):
            raise Unsupported("replace with list / symbolic arguments")
        else:
            pairs = [(to_replace, value)]
        if self.col.kind == "b":
            raise Unsupported("replace on a boolean column")
        out = []
        for c in self.cells():
            v, n = c.num(), c.null
            for old, new in pairs:
                if is_null_literal(old) or is_null_literal(new) or isinstance(old, (str, bool)) or isinstance(new, (str, bool)):
                    raise Unsupported("replace with null / non-numeric literals")
                if float(new) != int(new) or float(old) != int(old):
                    raise Unsupported("replace with fractional literals")
            hit = F
            res = v
            for old, new in reversed(pairs):
                res = If(And(Not(n), v == int(old)), z3.IntVal(int(new)), res)
            out.append(Cell(res, n, self.col.kind))
        return self._with(col=Col.from_cells(out, self.col.kind))

    def between(self, left, right, inclusive="both"):
        lo = self._bin(left, "ge" if inclusive in ("both", "left") else "gt")
        hi = self._bin(right, "le" if inclusive in ("both", "right") else "lt")
        return lo._bin(hi, "and_")

    def clip(self, lower=None, upper=None, axis=None, **kw):
        out = []
        for c in self.cells():
            v = c.num()
            if lower is not None:
                lo = lit_cell(lower).num()
                v = If(v < lo, lo, v)
            if upper is not None:
                hi = lit_cell(upper).num()
                v = If(v > hi, hi, v)
            out.append(Cell(v, c.null, self.col.kind if self.col.kind != "b" else "i"))
        return self._with(col=Col.from_cells(out))

    def astype(self, dtype):
        if isinstance(dtype, dict):
            dtype = dtype.get(self.name, None)
            if dtype is None:
                return self._with()
        k = _dtype_kind(dtype)
        cells = self.cells()
        if k == "i" and self.col.nullable:
            raise Unsupported("astype(int) on nullable column (pandas raises for NaN)")
        if k == "b":
            if self.col.nullable:
                raise Unsupported("astype(bool) on nullable")
            return self._with(col=Col("b", [c.val if c.kind == "b" else c.num() != 0 for c in cells]))
        return self._with(col=Col(k, [c.num() for c in cells], self.col.nulls))

    def where(self, cond, other=float("nan"), **kw):
        return self._where(cond, other, False)

    def mask(self, cond, other=float("nan"), **kw):
        return self._where(cond, other, True)

    def _where(self, cond, other, invert):
        if not isinstance(cond, SymSeries) or cond.col.kind != "b" or cond.prov != self.prov:
            raise Unsupported("where/mask condition")
        if isinstance(other, SymSeries):
            oc = other.cells() if other.prov == self.prov else reindex_cells(other, self)
        else:
            oc = [lit_cell(other)] * self.nslots
        out = []
        for c, k, o in zip(self.cells(), cond.col.vals, oc):
            keep = Not(k) if invert else k
            out.append(Cell(If(keep, c.num(), o.num()), If(keep, c.null, o.null), "f" if o.kind == "f" or c.kind == "f" else c.kind))
        return self._with(col=Col.from_cells(out))

    # ---- selection
    def __getitem__(self, key):
        if isinstance(key, SymSeries):
            if key.col.kind != "b":
                raise Unsupported("series[series] with non-bool key")
            if key.prov != self.prov:
                raise Unsupported("filter with unaligned mask")
            valid = [And(v, kv, m, Not(n)) for v, kv, m, n in zip(self.valid, key.valid, key.col.vals, key.col.nulls)]
            return self._with(valid=valid)
        if isinstance(key, slice):
            return self._slice(key)
        raise Unsupported(f"series getitem {type(key).__name__}")

    def _slice(self, key):
        if key.step not in (None, 1):
            raise Unsupported("slice step")
        if key.start in (None, 0) and key.stop is not None and key.stop >= 0:
            return self._with(valid=self._head_valid(key.stop))
        if key.stop is None and key.start is not None and key.start < 0:
            return self._with(valid=self._tail_valid(-key.start))
        raise Unsupported("general slice")

    def head(self, n=5, npartitions=1, compute=False):
        return self._with(valid=self._head_valid(n))

    def tail(self, n=5, compute=False):
        return self._with(valid=self._tail_valid(n))

    @property
    def iloc(self):
        return _ILoc(self)

    def dropna(self, **kw):
        return self._with(valid=[And(v, Not(n)) for v, n in zip(self.valid, self.col.nulls)])

    # ---- dask-only API (reference semantics: partitioning does not exist)
    def repartition(self, *a, **kw):
        return self._with()

    def persist(self, **kw):
        return self._with()

    def shuffle(self, *a, ignore_index=False, **kw):
        return SymSeries(self.name, self.col, self.valid, _undef_if(self.index_, ignore_index), self.prov, "unspecified")

    @property
    def loc(self):
        return _Loc(self)

    # ---- reductions
    def _red(self, name, **kw):
        return SymScalar(_reduce(name, self.cells(), self.valid, **kw))

    def sum(self, skipna=True, axis=0, numeric_only=False, min_count=0, **kw):
        return self._red("sum", skipna=skipna, min_count=min_count)

    def count(self, **kw):
        return self._red("count")

    def min(self, skipna=True, axis=0, **kw):
        return self._red("min", skipna=skipna)

    def max(self, skipna=True, axis=0, **kw):
        return self._red("max", skipna=skipna)

    def mean(self, skipna=True, axis=0, **kw):
        if not skipna:
            raise Unsupported("mean(skipna=False)")
        return self._red("mean")

    def any(self, skipna=True, **kw):
        return self._red("any")

    def all(self, skipna=True, **kw):
        return self._red("all")

    @property
    def size(self):
        return SymScalar(count(self.valid), F, "i")

    def nunique(self, dropna=True):
        first = _first_occurrence([[c] for c in self.cells()], self.valid, self.order)
        return SymScalar(Sum([If(And(f, Or(Not(c.null), not dropna)), z3.IntVal(1), z3.IntVal(0)) for f, c in zip(first, self.cells())]), F, "i")

    # ---- shape changes
    def to_frame(self, name=None):
        from dask.typing import no_default

        nm = self.name if name is None or name is no_default else name
        if nm is None:
            nm = 0
        return SymFrame([(nm, self.col)], **self._row_attrs())

    def rename(self, index=None, name=None, **kw):
        new = index if index is not None else name
        if callable(new) or isinstance(new, dict):
            raise Unsupported("rename index labels")
        return self._with(name=new)

    def reset_index(self, drop=False, name=_NO_DEFAULT, **kw):
        from dask.typing import no_default

        if drop:
            return self._with(index=_undef_if(self.index_))
        if not self.index_.defined:
            raise Unsupported("reset_index(drop=False) of an undefined index")
        iname = self.index_.name if self.index_.name is not None else "index"
        if name is _NO_DEFAULT or name is no_default:
            sname = self.name if self.name is not None else 0
        else:
            sname = name  # an explicit name=None gives a column labelled None
        cols = [(iname, self.index_.column()), (sname, self.col)]
        return SymFrame(cols, self.valid, Idx.undefined(self.nslots), self.prov, self.order)

    def squeeze(self, axis=None):
        # used by TakeLast on `tail(1)`: a one-row series squeezes to a scalar, anything else stays a series
        n = count(self.valid)
        if decide(n == 1):
            cells = self.cells()
            val = Sum([If(v, c.num(), z3.IntVal(0)) for v, c in zip(self.valid, cells)])
            null = Or(*[And(v, c.null) for v, c in zip(self.valid, cells)])
            if self.col.kind == "b":
                return SymScalar(Cell(val != 0, null, "b"))
            return SymScalar(Cell(val, null, self.col.kind))
        return self

    def drop_duplicates(self, keep="first", ignore_index=False, **kw):
        if keep != "first":
            raise Unsupported("drop_duplicates keep")
        first = _first_occurrence([[c] for c in self.cells()], self.valid, None if isinstance(self.order, str) else self.order)
        return self._with(valid=first, index=_undef_if(self.index_, ignore_index))

    def unique(self, **kw):
        # dask semantics: a Series of the distinct values (index unspecified)
        out = self.drop_duplicates()
        return out._with(index=Idx.undefined(out.nslots))

    # ---- order dependent
    def _cum(self, kind, skipna=True):
        if not skipna:
            raise Unsupported("cum*(skipna=False)")
        return self._with(col=_cumulate(self.cells(), self.valid, self.order, kind))

    def cumsum(self, axis=None, skipna=True, **kw):
        return self._cum("sum", skipna)

    def cummax(self, axis=None, skipna=True, **kw):
        return self._cum("max", skipna)

    def cummin(self, axis=None, skipna=True, **kw):
        return self._cum("min", skipna)

    def shift(self, periods=1, freq=None, **kw):
        if freq is not None:
            raise Unsupported("shift freq")
        return self._with(col=_shift(self.cells(), self.valid, self.order, periods))

    def rolling(self, window, min_periods=None, center=False, win_type=None, **kw):
        return SymRolling(self, window, min_periods, center, win_type, **kw)

    def diff(self, periods=1):
        sh = self.shift(periods)
        out = [cell_binop("sub", a, b) for a, b in zip(self.cells(), sh.cells())]
        return self._with(col=Col.from_cells(out, "f"))

    def ffill(self, limit=None, **kw):
        if limit is not None:
            raise Unsupported("ffill limit")
        return self._with(col=_fill(self.cells(), self.valid, self.order, forward=True))

    def bfill(self, limit=None, **kw):
        if limit is not None:
            raise Unsupported("bfill limit")
        return self._with(col=_fill(self.cells(), self.valid, self.order, forward=False))

    def nlargest(self, n=5, **kw):
        return self.to_frame("_v")._n_extreme(n, ["_v"], largest=True)["_v"]._with(name=self.name)

    def nsmallest(self, n=5, **kw):
        return self.to_frame("_v")._n_extreme(n, ["_v"], largest=False)["_v"]._with(name=self.name)

    def sort_values(self, ascending=True, **kw):
        return self.to_frame("_v").sort_values("_v", ascending=ascending)["_v"]._with(name=self.name)

    def sort_index(self, ascending=True, **kw):
        return self.to_frame("_v").sort_index(ascending=ascending)["_v"]._with(name=self.name)

    def value_counts(self, sort=None, ascending=False, dropna=True, normalize=False, **kw):
        from .groupby import group_reduce

        if not dropna:
            # missing values are counted under the missing label (NAN_LABEL convention of groupby(dropna=False); values stay below it)
            from .core import NAN_LABEL

            labels = [If(c.null, NAN_LABEL, c.num()) for c in self.cells()]
            key = [[Cell(l, F, "i") for l in labels]]
            first, aggs = group_reduce(key, list(self.valid), self.order, [("size", self.cells())])
            idx = Idx(labels, self.name, True, nan=True)
            out = SymSeries("count", Col.from_cells(aggs[0], "i"), first, idx, [("vc", p) for p in self.prov], None)
            if normalize:
                total = Cell(count(list(self.valid)), F, "i")
                out = SymSeries("proportion", Col.from_cells([cell_binop("truediv", c, total) for c in out.cells()], "f"), first, idx, out.prov, None)
            return out
        key = [self.cells()]
        valid = [And(v, Not(c.null)) for v, c in zip(self.valid, self.cells())]
        first, aggs = group_reduce(key, valid, self.order, [("count", self.cells())])
        idx = Idx([c.num() for c in self.cells()], self.name, True)
        out = SymSeries("count", Col.from_cells(aggs[0], "i"), first, idx, [("vc", p) for p in self.prov], None)
        if normalize:
            # proportions of the counted (non-missing) values
            total = Cell(count(valid), F, "i")
            out = SymSeries("proportion", Col.from_cells([cell_binop("truediv", c, total) for c in out.cells()], "f"), first, idx, out.prov, None)
        return out

    def __repr__(self):
        return f"SymSeries({self.name!r}, kind={self.col.kind}, slots={self.nslots})"

    def __bool__(self):
        raise ValueError("truth value of a Series is ambiguous")


_install_binops(SymSeries)
_install_binops(SymScalar)


class _Loc:
    """label based row selection `x.loc[a:b]`, `x.loc[[labels]]`, `x.loc[a:b, cols]`"""

    def __init__(self, obj):
        self.obj = obj

    def __getitem__(self, key):
        from .models import m_loc

        cindexer = None
        if isinstance(key, tuple):
            key, cindexer = key
        if isinstance(key, (int,)) and not isinstance(key, bool):
            key = slice(key, key)
        return m_loc(None, self.obj, key, cindexer)


class _ILoc:
    """positional row slices `x.iloc[a:b]` with a >= 0 or None and b <= 0 or None (drop leading / trailing rows),
    or a in (0, None) and b >= 0 (head)"""

    def __init__(self, obj):
        self.obj = obj

    def __getitem__(self, key):
        o = self.obj
        if not isinstance(key, slice) or key.step not in (None, 1):
            raise Unsupported("iloc with non-slice")
        a, b = key.start, key.stop
        if isinstance(a, SymScalar) or isinstance(b, SymScalar):
            raise Unsupported("iloc with symbolic bound")
        r = o._ranks()
        tot = count(o.valid)
        conds = [[] for _ in o.valid]
        if a is not None:
            for i, ri in enumerate(r):
                conds[i].append(ri >= a if a >= 0 else ri >= tot + a)
        if b is not None:
            for i, ri in enumerate(r):
                conds[i].append(ri < b if b >= 0 else ri < tot + b)
        return o._with(valid=[And(v, *c) for v, c in zip(o.valid, conds)])


# ---------------------------------------------------------------------------------------------- order helpers

def _before_fn(valid, order):
    bf = before(order, len(valid))

    def f(j, i):
        b = bf(j, i)
        return B(b) if isinstance(b, bool) else b

    return f


def _cumulate(cells, valid, order, kind):
    n = len(cells)
    bf = _before_fn(valid, order)
    out = []
    k = "f" if any(c.kind == "f" for c in cells) else "i"
    for i in range(n):
        contrib = []
        for j in range(n):
            inc = T if j == i else bf(j, i)
            if is_f(inc):
                continue
            contrib.append((And(valid[j], Not(cells[j].null), inc), cells[j].num()))
        if kind == "sum":
            v = Sum([If(c, x, z3.IntVal(0)) for c, x in contrib])
        else:
            has, cur = F, z3.IntVal(0)
            for c, x in contrib:
                better = (x > cur) if kind == "max" else (x < cur)
                cur = If(c, If(has, If(better, x, cur), x), cur)
                has = Or(has, c)
            v = cur
        # pandas: position of a NaN stays NaN (skipna=True), later rows continue
        out.append(Cell(v, cells[i].null, k))
    return Col.from_cells(out, k)


def _shift(cells, valid, order, periods):
    if periods == 0:
        return Col.from_cells(cells)
    n = len(cells)
    r = ranks(valid, order)
    out = []
    for i in range(n):
        v, null_found = [], []
        hit = []
        for j in range(n):
            if j == i:
                continue
            c = And(valid[j], r[j] == r[i] - periods)
            if is_f(c):
                continue
            hit.append(c)
            v.append(If(c, cells[j].num(), z3.IntVal(0)))
            null_found.append(And(c, cells[j].null))
        found = Or(*hit)
        out.append(Cell(Sum(v), Or(Not(found), *null_found), "f"))
    return Col.from_cells(out, "f")


def _rolling(cells, valid, order, window, min_periods, how):
    """fixed-size trailing window over the row order: aggregate of the non-null values among the last `window` rows,
    NaN when fewer than `min_periods` of them are non-null"""
    n = len(cells)
    r = ranks(valid, order)
    out = []
    for i in range(n):
        inwin = [And(valid[j], r[j] <= r[i], r[j] > r[i] - window, Not(cells[j].null)) for j in range(n)]
        cnt = Sum([If(w, z3.IntVal(1), z3.IntVal(0)) for w in inwin])
        null = cnt < min_periods
        if how == "count":
            # pandas counts the non-null values but applies min_periods to the number of rows in the window
            nrows = Sum([If(And(valid[j], r[j] <= r[i], r[j] > r[i] - window), z3.IntVal(1), z3.IntVal(0)) for j in range(n)])
            out.append(Cell(cnt, nrows < min_periods, "f"))
            continue
        if how in ("sum", "mean"):
            val = Sum([If(w, cells[j].num(), z3.IntVal(0)) for j, w in enumerate(inwin)])
            if how == "mean":
                c = cell_binop("truediv", Cell(val, F, "f"), Cell(cnt, F, "i"))
                out.append(Cell(c.val, Or(null, c.null), "f"))
            else:
                out.append(Cell(val, null, "f"))
            continue
        if how in ("min", "max"):
            has, cur = F, z3.IntVal(0)
            for j, w in enumerate(inwin):
                if is_f(w):
                    continue
                x = cells[j].num()
                better = (x < cur) if how == "min" else (x > cur)
                cur = If(w, If(has, If(better, x, cur), x), cur)
                has = Or(has, w)
            out.append(Cell(cur, null, "f"))
            continue
        raise Unsupported(f"rolling {how}")
    return Col.from_cells(out, "f")


class SymRolling:
    def __init__(self, obj, window, min_periods=None, center=False, win_type=None, **kw):
        if not isinstance(window, int) or center or win_type is not None or kw.get("on") is not None or kw.get("closed") is not None or kw.get("axis", 0) not in (0, "index"):
            raise Unsupported("rolling options")
        self.obj, self.window, self.given_min_periods = obj, window, min_periods
        self.min_periods = window if min_periods is None else min_periods

    def _agg(self, how):
        obj = self.obj
        order = None if isinstance(obj.order, str) else obj.order
        if isinstance(obj.order, str):
            raise Unsupported("row order is unspecified here (after a shuffle / join): order-dependent operation not modelled")
        if isinstance(obj, SymSeries):
            mp = self.min_periods
            return obj._with(col=_rolling(obj.cells(), obj.valid, order, self.window, mp, how))
        return obj._map_cols(lambda s: SymRolling(s, self.window, self.given_min_periods)._agg(how))

    def sum(self, *a, **kw):
        return self._agg("sum")

    def mean(self, *a, **kw):
        return self._agg("mean")

    def count(self, *a, **kw):
        return self._agg("count")

    def min(self, *a, **kw):
        return self._agg("min")

    def max(self, *a, **kw):
        return self._agg("max")

    def __getattr__(self, name):
        if name.startswith("_"):
            raise AttributeError(name)
        raise Unsupported(f"rolling {name}")


def _fill(cells, valid, order, forward):
    """ffill/bfill: value of the nearest non-null valid row at or before (after) the row"""
    n = len(cells)
    r = ranks(valid, order)
    kind = cells[0].kind if cells else "f"
    out = []
    for i in range(n):
        # candidate j: valid, non-null, rank_j <= rank_i (forward); pick the one with the greatest rank
        best_has, best_rank, best_val = F, z3.IntVal(-1), z3.IntVal(0)
        for j in range(n):
            ok = And(valid[j], Not(cells[j].null), (r[j] <= r[i]) if forward else (r[j] >= r[i])) if j != i else And(valid[j], Not(cells[j].null))
            if is_f(ok):
                continue
            closer = (r[j] > best_rank) if forward else (r[j] < best_rank)
            take = And(ok, Or(Not(best_has), closer))
            best_val = If(take, cells[j].num(), best_val)
            best_rank = If(take, r[j], best_rank)
            best_has = Or(best_has, ok)
        out.append(Cell(best_val, Not(best_has), kind))
    return Col.from_cells(out, kind if kind != "b" else None)


def _first_occurrence(keys, valid, order):
    """keys: per slot a list of cells. slot i is a first occurrence iff valid and no valid slot before it has equal key"""
    n = len(valid)
    bf = _before_fn(valid, order)
    out = []
    for i in range(n):
        dup = []
        for j in range(n):
            if j == i:
                continue
            b = bf(j, i)
            if is_f(b):
                continue
            dup.append(And(valid[j], b, *[cell_eq(a, c) for a, c in zip(keys[j], keys[i])]))
        out.append(And(valid[i], Not(Or(*dup))))
    return out


# ---------------------------------------------------------------------------------------------- Index

class SymIndex(_RowsMixin, SymBase):
    ndim = 1

    def __init__(self, idx: Idx, valid, prov, order=None, owner=None):
        self.idx, self.valid, self.prov, self.order, self.owner = idx, list(valid), list(prov), order, owner

    @property
    def name(self):
        return self.idx.name

    @name.setter
    def name(self, value):
        self.idx = Idx(self.idx.vals, value, self.idx.defined, self.idx.labels, self.idx.nan)
        if self.owner is not None:
            self.owner.index_ = self.idx

    @property
    def names(self):
        return [self.idx.name]

    @property
    def dtype(self):
        return _DType("i")

    @property
    def index(self):
        return self

    def _need(self):
        if not self.idx.defined:
            raise Unsupported("reading index labels that pandas generated (undefined in the model)")
        if self.idx.labels:
            raise Unsupported("label index arithmetic")

    def cells(self):
        self._need()
        return self.idx.column().cells()

    def _with(self, valid=None, idx=None):
        return SymIndex(idx if idx is not None else self.idx, valid if valid is not None else self.valid, self.prov, self.order)

    def __getitem__(self, key):
        if isinstance(key, SymSeries) and key.col.kind == "b":
            if key.prov != self.prov:
                raise Unsupported("index filter unaligned")
            return self._with(valid=[And(v, kv, m) for v, kv, m in zip(self.valid, key.valid, key.col.vals)])
        if isinstance(key, slice):
            if key.start in (None, 0) and key.stop is not None and key.stop >= 0:
                return self._with(valid=self._head_valid(key.stop))
            if key.stop is None and key.start is not None and key.start < 0:
                return self._with(valid=self._tail_valid(-key.start))
        raise Unsupported("index getitem")

    def head(self, n=5, npartitions=1, compute=False):
        return self._with(valid=self._head_valid(n))

    def tail(self, n=5, compute=False):
        return self._with(valid=self._tail_valid(n))

    @property
    def iloc(self):
        return _ILoc(self)

    def min(self, **kw):
        return SymScalar(_reduce("min", self.cells(), self.valid))

    def max(self, **kw):
        return SymScalar(_reduce("max", self.cells(), self.valid))

    def to_series(self, index=None, name=None):
        self._need()
        return SymSeries(self.name if name is None else name, Col("i", [I(v) for v in self.idx.vals]), self.valid, self.idx, self.prov, self.order)

    def to_frame(self, index=True, name=None):
        from dask.typing import no_default

        self._need()
        nm = self.name if name is None or name is no_default else name
        if nm is None:
            nm = 0
        idx = self.idx if index else Idx.undefined(self.nslots)
        return SymFrame([(nm, Col("i", [I(v) for v in self.idx.vals]))], self.valid, idx, self.prov, self.order)

    def _bin(self, other, op, reverse=False):
        s = self.to_series()
        return s._bin(other, op, reverse)

    def isin(self, values):
        return self.to_series().isin(values)

    def rename(self, name=None, **kw):
        return self._with(idx=Idx(self.idx.vals, name, self.idx.defined, self.idx.labels, self.idx.nan))

    def copy(self, deep=True):
        return self._with()

    def __repr__(self):
        return f"SymIndex({self.name!r}, slots={self.nslots})"


_install_binops(SymIndex)


# ---------------------------------------------------------------------------------------------- label series

class SymLabelSeries(SymBase):
    """a Series indexed by column labels (the result of a DataFrame reduction)"""

    ndim = 1

    def __init__(self, labels, cells, name=None):
        self.labels, self.cells_, self.name = list(labels), list(cells), name

    def groupby(self):  # is_series_like marker
        raise Unsupported("groupby on a label series")

    def head(self, n=5):
        raise Unsupported("head on a label series")

    def mean(self):
        raise Unsupported("mean of a label series")

    @property
    def dtype(self):
        kinds = {c.kind for c in self.cells_}
        return _DType("f" if "f" in kinds else ("b" if kinds == {"b"} else "i"))

    @property
    def index(self):
        return pd.Index(self.labels)

    def to_frame(self, name=None):
        return _LabelFrame(self)

    def astype(self, dtype):
        k = _dtype_kind(dtype)
        return SymLabelSeries(self.labels, [Cell(c.num(), c.null, k) for c in self.cells_], self.name)

    def __getitem__(self, key):
        if isinstance(key, list):
            missing = [k for k in key if k not in self.labels]
            if missing:
                raise MissingLabel(f"labels {missing} not in {self.labels}")
            return SymLabelSeries(key, [self.cells_[self.labels.index(k)] for k in key], self.name)
        if key not in self.labels:
            raise MissingLabel(f"label {key!r} not in {self.labels}")
        if self.labels.count(key) > 1:
            raise StructuralError(f"label {key!r} duplicated in {self.labels}")
        return SymScalar(self.cells_[self.labels.index(key)])

    def _bin(self, other, op, reverse=False):
        if isinstance(other, SymFrame):
            return NotImplemented
        if isinstance(other, SymLabelSeries):
            if other.labels != self.labels:
                raise Unsupported("label series with different labels")
            oc = other.cells_
        else:
            oc = [lit_cell(other)] * len(self.labels)
        out = [cell_binop(op, *((b, a) if reverse else (a, b))) for a, b in zip(self.cells_, oc)]
        return SymLabelSeries(self.labels, out, self.name)

    def sum(self, **kw):
        return SymScalar(red_sum(self.cells_, [T] * len(self.cells_), kw.get("skipna", True)))

    def rename(self, index=None, name=None, **kw):
        return SymLabelSeries(self.labels, self.cells_, index if index is not None else name)

    def isna(self):
        return SymLabelSeries(self.labels, [Cell(c.null, F, "b") for c in self.cells_], self.name)

    isnull = isna

    def notna(self):
        return SymLabelSeries(self.labels, [Cell(Not(c.null), F, "b") for c in self.cells_], self.name)

    notnull = notna

    def where(self, cond, other=float("nan"), **kw):
        if not isinstance(cond, SymLabelSeries) or cond.labels != self.labels:
            raise Unsupported("label-series where condition")
        oc = other.cells_ if isinstance(other, SymLabelSeries) and other.labels == self.labels else None
        if oc is None:
            if isinstance(other, SymBase) and not isinstance(other, SymScalar):
                raise Unsupported("label-series where other")
            oc = [lit_cell(other)] * len(self.labels)
        out = []
        for c, k, o in zip(self.cells_, cond.cells_, oc):
            keep = k.val
            if c.kind == "b" and o.kind == "b":
                out.append(Cell(If(keep, c.val, o.val), If(keep, c.null, o.null), "b"))
            else:
                out.append(Cell(If(keep, c.num(), o.num()), If(keep, c.null, o.null), "f" if "f" in (c.kind, o.kind) else c.kind))
        return SymLabelSeries(self.labels, out, self.name)

    def __repr__(self):
        return f"SymLabelSeries({self.labels})"


_install_binops(SymLabelSeries)


class _LabelFrame:
    """`labelseries.to_frame()`: only `.T` is supported (the Reduction.chunk idiom)"""

    def __init__(self, ls):
        self.ls = ls

    @property
    def T(self):
        ls = self.ls
        cols = [(lab, Col.from_cells([c])) for lab, c in zip(ls.labels, ls.cells_)]
        return SymFrame(cols, [T], Idx([ls.name if ls.name is not None else 0], None, True, labels=True), [("red",)], None)


# ---------------------------------------------------------------------------------------------- DataFrame

class SymFrame(_RowsMixin, SymBase):
    ndim = 2

    def __init__(self, cols, valid=None, index: Idx = None, prov=None, order=None):
        if valid is None and isinstance(cols, dict):
            # pandas.DataFrame({label: series}) over series of the same rows (what dask's groupby helpers build)
            sers = list(cols.items())
            if not sers or not all(isinstance(v, SymSeries) for _, v in sers):
                raise Unsupported("frame from a mapping of non-series")
            first = sers[0][1]
            if not all(v.prov == first.prov and same_valid(v.valid, first.valid) for _, v in sers):
                raise Unsupported("frame from a mapping of differently indexed series")
            cols, valid, index, prov, order = [(k, v.col) for k, v in sers], first.valid, first.index_, first.prov, first.order
        self.cols = list(cols) if not isinstance(cols, OrderedDict) else list(cols.items())  # list of (label, Col): duplicates representable
        self.valid, self.index_, self.prov, self.order = list(valid), index, list(prov), order
        n = len(self.valid)
        if not (len(index) == n and len(self.prov) == n and all(len(c) == n for _, c in self.cols)):
            raise AssertionError("inconsistent slot counts")

    # markers for dask.utils.is_dataframe_like
    def merge(self, right, **kw):
        from .relational import sym_merge

        return sym_merge(self, right, **kw)

    def mean(self, axis=0, skipna=True, numeric_only=False, **kw):
        return self._red("mean")

    def groupby(self, by=None, level=None, **kw):
        from .groupby import SymGroupBy

        return SymGroupBy(self, by=by, level=level, **kw)

    @property
    def columns(self):
        return pd.Index([k for k, _ in self.cols])

    @columns.setter
    def columns(self, value):
        value = list(value)
        if len(value) != len(self.cols):
            raise StructuralError(f"Length mismatch: {len(self.cols)} columns, {len(value)} new labels")
        self.cols = [(k, c) for k, (_, c) in zip(value, self.cols)]

    @property
    def labels(self):
        return [k for k, _ in self.cols]

    @property
    def dtypes(self):
        return pd.Series({k: c.kind for k, c in self.cols}) if len({k for k, _ in self.cols}) == len(self.cols) else None

    @property
    def index(self):
        return SymIndex(self.index_, self.valid, self.prov, self.order, owner=self)

    @index.setter
    def index(self, value):
        if isinstance(value, SymIndex) and value.prov == self.prov:
            self.index_ = value.idx
        else:
            raise Unsupported("assigning a new index")

    def _row_attrs(self):
        return dict(valid=self.valid, index=self.index_, prov=self.prov, order=self.order)

    def _with(self, cols=None, valid=None, index=None, order=...):
        return SymFrame(cols if cols is not None else self.cols, valid if valid is not None else self.valid,
                        index if index is not None else self.index_, self.prov, self.order if order is ... else order)

    def copy(self, deep=True):
        return self._with(cols=list(self.cols))

    def col(self, key):
        hits = [c for k, c in self.cols if k == key or (is_null_literal(k) and is_null_literal(key))]
        if not hits:
            raise MissingLabel(f"column {key!r} not in {self.labels}")
        if len(hits) > 1:
            raise StructuralError(f"column {key!r} duplicated in {self.labels}")
        return hits[0]

    def _series(self, key):
        if not isinstance(key, tuple) and key not in self.labels:
            # columns labelled by tuples (pandas MultiIndex): a first-level label selects the sub-frame
            sub = [(k[1] if len(k) == 2 else k[1:], c) for k, c in self.cols if isinstance(k, tuple) and len(k) >= 2 and k[0] == key]
            if sub:
                return self._with(cols=sub)
        return SymSeries(key, self.col(key), **self._row_attrs())

    def __getattr__(self, key):
        if key.startswith("_") or key in ("name", "dtype"):
            raise AttributeError(key)
        cols = object.__getattribute__(self, "cols")
        if any(k == key for k, _ in cols):
            return self._series(key)
        raise AttributeError(key)

    def __getitem__(self, key):
        if isinstance(key, SymSeries):
            if key.col.kind != "b":
                raise Unsupported("frame[series] with non-bool key")
            if key.prov != self.prov:
                raise Unsupported("filter with unaligned mask")
            valid = [And(v, kv, m, Not(n)) for v, kv, m, n in zip(self.valid, key.valid, key.col.vals, key.col.nulls)]
            return self._with(valid=valid)
        if isinstance(key, (list, pd.Index)):
            key = list(key)
            return self._with(cols=[(k, self.col(k)) for k in key])
        if isinstance(key, slice):
            raise Unsupported("frame slice")
        if isinstance(key, SymFrame):
            return self.where(key)  # frame[boolean frame]: cells where the mask is False become NaN
        if isinstance(key, SymBase):
            raise Unsupported("frame getitem sym")
        return self._series(key)

    def __setitem__(self, key, val):
        if isinstance(key, SymFrame):
            # frame[boolean frame] = scalar
            if isinstance(val, SymBase) and not isinstance(val, SymScalar):
                raise Unsupported("masked assignment of a non-scalar")
            new = self.mask(key, val)
            self.cols = new.cols
            return
        if isinstance(key, (list, pd.Index)) and isinstance(val, SymFrame):
            key = list(key)
            if len(key) != len(val.cols) or val.prov != self.prov or not same_valid(self.valid, val.valid):
                raise Unsupported("assignment of a differently shaped frame")
            for k, (_, c) in zip(key, val.cols):
                self[k] = SymSeries(k, c, **self._row_attrs())
            return
        if isinstance(val, SymSeries):
            if val.prov != self.prov:
                col = Col.from_cells(reindex_cells(val, self))  # pandas reindexes the value to the frame's index
            elif not same_valid(self.valid, val.valid):
                raise Unsupported("assign differently filtered series")
            else:
                col = val.col
        elif isinstance(val, SymIndex):
            # pandas assigns an Index positionally: only the frame's own (equally filtered) index is modelled
            if val.prov != self.prov or not same_valid(self.valid, val.valid):
                raise Unsupported("assign index of a different frame")
            col = Col.from_cells(val.cells())
        elif isinstance(val, (SymFrame, SymLabelSeries)):
            raise Unsupported("assign non-series")
        else:
            c = lit_cell(val)
            col = Col.from_cells([c] * self.nslots)
        labels = self.labels
        if labels.count(key) > 1:
            raise StructuralError(f"assign to duplicated column {key!r}")
        if key in labels:
            i = labels.index(key)
            self.cols[i] = (key, col)
        else:
            self.cols.append((key, col))

    def assign(self, **kw):
        out = self.copy()
        for k, v in kw.items():
            if callable(v) and not isinstance(v, SymBase):
                v = v(out)
            out[k] = v
        return out

    def rename(self, columns=None, index=None, **kw):
        if index is not None:
            raise Unsupported("rename index labels")
        if columns is None:
            return self._with()
        f = columns if callable(columns) else (lambda k: columns.get(k, k))
        return self._with(cols=[(f(k), c) for k, c in self.cols])

    def rename_axis(self, mapper=None, index=None, columns=None, axis=0, **kw):
        raise Unsupported("rename_axis")

    def add_prefix(self, prefix):
        return self._with(cols=[(prefix + str(k), c) for k, c in self.cols])

    def add_suffix(self, suffix):
        return self._with(cols=[(str(k) + suffix, c) for k, c in self.cols])

    def drop(self, labels=None, axis=0, columns=None, errors="raise", **kw):
        if columns is None and axis in (1, "columns"):
            columns = labels
        if columns is None:
            raise Unsupported("drop rows")
        columns = columns if isinstance(columns, (list, tuple, pd.Index)) else [columns]
        missing = [c for c in columns if c not in self.labels]
        if missing and errors == "raise":
            raise StructuralError(f"drop: {missing} not in {self.labels}")
        return self._with(cols=[(k, c) for k, c in self.cols if k not in columns])

    def _series_list(self):
        return [SymSeries(k, c, **self._row_attrs()) for k, c in self.cols]

    def _map_cols(self, f):
        return self._with(cols=[(k, f(SymSeries(k, c, **self._row_attrs())).col) for k, c in self.cols])

    def isna(self):
        return self._map_cols(lambda s: s.isna())

    isnull = isna

    def notnull(self):
        return self._map_cols(lambda s: s.notnull())

    notna = notnull

    def abs(self):
        return self._map_cols(lambda s: s.abs())

    def sqrt(self):
        return self._map_cols(lambda s: s.sqrt())

    def __neg__(self):
        return self._map_cols(lambda s: -s)

    def __invert__(self):
        return self._map_cols(lambda s: ~s)

    def __pos__(self):
        return self._with()

    def fillna(self, value=None, **kw):
        if isinstance(value, dict):
            return self._with(cols=[(k, SymSeries(k, c, **self._row_attrs()).fillna(value[k]).col if k in value else c) for k, c in self.cols])
        if isinstance(value, SymFrame):
            # frame.fillna(frame): column by column over the shared labels, rows matched on the index
            return self._with(cols=[(k, SymSeries(k, c, **self._row_attrs()).fillna(value._series(k)).col if k in value.labels else c) for k, c in self.cols])
        if isinstance(value, SymBase) and not isinstance(value, SymScalar):
            raise Unsupported("frame fillna with series")
        return self._map_cols(lambda s: s.fillna(value))

    def isin(self, values):
        if isinstance(values, dict):
            # per column: a column without an entry matches nothing
            false = lambda s: s._with(col=Col("b", [F] * s.nslots))
            return self._with(cols=[(k, (SymSeries(k, c, **self._row_attrs()).isin(values[k]) if k in values else false(SymSeries(k, c, **self._row_attrs()))).col) for k, c in self.cols])
        if isinstance(values, SymBase):
            raise Unsupported("isin with a frame / series")
        return self._map_cols(lambda s: s.isin(values))

    def clip(self, lower=None, upper=None, axis=None, **kw):
        return self._map_cols(lambda s: s.clip(lower, upper))

    def round(self, decimals=0, *a, **kw):
        if isinstance(decimals, dict):
            if any((not isinstance(v, int)) or v < 0 for v in decimals.values()):
                raise Unsupported("round to negative / non-integer decimals")
            return self._with()  # labels without a column are ignored by pandas
        return self._map_cols(lambda s: s.round(decimals))

    def replace(self, to_replace=None, value=None, **kw):
        if isinstance(to_replace, dict) and value is None and to_replace and all(isinstance(v, dict) for v in to_replace.values()):
            # {column: {old: new}}: labels without a column are ignored
            return self._with(cols=[(k, SymSeries(k, c, **self._row_attrs()).replace(to_replace[k]).col if k in to_replace else c) for k, c in self.cols])
        if isinstance(to_replace, dict) and value is not None:
            raise Unsupported("replace({column: old}, value)")
        return self._map_cols(lambda s: s.replace(to_replace, value, **kw))

    def astype(self, dtype):
        if isinstance(dtype, dict):
            missing = [k for k in dtype if k not in self.labels]
            if missing:
                raise StructuralError(f"astype: {missing} not in {self.labels}")
            return self._with(cols=[(k, SymSeries(k, c, **self._row_attrs()).astype(dtype[k]).col if k in dtype else c) for k, c in self.cols])
        return self._map_cols(lambda s: s.astype(dtype))

    def _bin(self, other, op, reverse=False):
        if isinstance(other, SymFrame):
            if other.prov != self.prov and other.labels == self.labels and op in ("add", "sub", "mul", "truediv"):
                # pandas aligns on the index: against a frame without rows every row of the result is NaN
                if decide(count(other.valid) == 0):
                    nullcol = Col.from_cells([Cell(z3.IntVal(0), T, "f")] * self.nslots)
                    return SymFrame([(k, nullcol) for k, _ in self.cols], self.valid, self.index_, [(p_, None) for p_ in self.prov], self.order)
            if other.prov != self.prov and other.labels == self.labels and len(set(self.labels)) == len(self.labels):
                a2, b2 = align_rows(self, other)
                return a2._bin(b2, op, reverse)
            if other.labels != self.labels or other.prov != self.prov or not same_valid(self.valid, other.valid):
                raise Unsupported("frame op frame with different columns / alignment")
            cols = []
            for (k, a), (_, b) in zip(self.cols, other.cols):
                x, y = SymSeries(k, a, **self._row_attrs()), SymSeries(k, b, **self._row_attrs())
                cols.append((k, (y._bin(x, op) if reverse else x._bin(y, op)).col))
            return self._with(cols=cols)
        if isinstance(other, SymLabelSeries):
            if len(set(self.labels)) != len(self.labels) or len(set(other.labels)) != len(other.labels):
                raise StructuralError("frame op label-series with duplicated labels")
            same = list(map(str, other.labels)) == list(map(str, self.labels))
            labels = self.labels if same else sorted(set(self.labels) | set(other.labels), key=str)
            cols = []
            nullcol = Col.from_cells([Cell(z3.IntVal(0), T, "f")] * self.nslots)
            for k in labels:
                if k in self.labels and k in other.labels:
                    s = SymSeries(k, self.col(k), **self._row_attrs())
                    cols.append((k, s._bin(other[k], op, reverse).col))
                else:
                    if op in ("lt", "le", "gt", "ge", "eq", "ne", "and_", "or_", "xor"):
                        raise Unsupported("comparison/logical frame op label-series with different labels")
                    cols.append((k, nullcol))
            return self._with(cols=cols)
        if isinstance(other, (SymSeries, SymIndex)):
            raise Unsupported("frame op row-series (pandas aligns on columns)")
        return self._map_cols(lambda s: s._bin(other, op, reverse))

    def where(self, cond, other=float("nan"), **kw):
        return self._where(cond, other, False)

    def mask(self, cond, other=float("nan"), **kw):
        return self._where(cond, other, True)

    def _where(self, cond, other, invert):
        if not isinstance(cond, SymFrame) or cond.labels != self.labels or cond.prov != self.prov:
            raise Unsupported("frame where/mask condition")
        cols = []
        for k, c in self.cols:
            s = SymSeries(k, c, **self._row_attrs())
            cs = SymSeries(k, cond.col(k), **self._row_attrs())
            if isinstance(other, SymFrame):
                if other.labels != self.labels or other.prov != self.prov:
                    raise Unsupported("frame where other")
                o = SymSeries(k, other.col(k), **self._row_attrs())
            elif isinstance(other, SymBase) and not isinstance(other, SymScalar):
                raise Unsupported("frame where other kind")
            else:
                o = other
            cols.append((k, s._where(cs, o, invert).col))
        return self._with(cols=cols)

    # ---- dask-only API (reference semantics: partitioning does not exist)
    def repartition(self, *a, **kw):
        return self._with()

    def persist(self, **kw):
        return self._with()

    def shuffle(self, *a, ignore_index=False, **kw):
        return SymFrame(self.cols, self.valid, _undef_if(self.index_, ignore_index), self.prov, "unspecified")

    @property
    def loc(self):
        return _Loc(self)

    # ---- selection
    def head(self, n=5, npartitions=1, compute=False):
        return self._with(valid=self._head_valid(n))

    def tail(self, n=5, compute=False):
        return self._with(valid=self._tail_valid(n))

    @property
    def iloc(self):
        return _ILoc(self)

    def dropna(self, how="any", subset=None, thresh=None, **kw):
        from dask.typing import no_default

        if thresh is not None and thresh is not no_default:
            raise Unsupported("dropna thresh")
        if how is no_default:
            how = "any"
        labels = self.labels if subset is None else list(subset)
        nulls = [self.col(k).nulls for k in labels]
        valid = []
        for i, v in enumerate(self.valid):
            ns = [n[i] for n in nulls]
            drop = Or(*ns) if how == "any" else And(*ns)
            valid.append(And(v, Not(drop)))
        return self._with(valid=valid)

    def drop_duplicates(self, subset=None, keep="first", ignore_index=False, **kw):
        if keep != "first":
            raise Unsupported("drop_duplicates keep")
        labels = self.labels if subset is None else ([subset] if not isinstance(subset, (list, tuple)) else list(subset))
        keycols = [self.col(k) for k in labels]
        keys = [[c.cell(i) for c in keycols] for i in range(self.nslots)]
        first = _first_occurrence(keys, self.valid, None if isinstance(self.order, str) else self.order)
        return self._with(valid=first, index=_undef_if(self.index_, ignore_index))

    # ---- reductions
    def _red(self, name, **kw):
        if kw.get("axis", 0) not in (0, None, "index"):
            raise Unsupported("axis=1 reduction")
        if len(set(map(str, self.labels))) != len(self.labels):
            raise StructuralError(f"reduction over duplicated columns {self.labels}")
        kw = {k: v for k, v in kw.items() if k != "axis"}
        return SymLabelSeries(self.labels, [_reduce(name, c.cells(), self.valid, **kw) for _, c in self.cols])

    def sum(self, axis=0, skipna=True, numeric_only=False, min_count=0, **kw):
        return self._red("sum", axis=axis, skipna=skipna, min_count=min_count)

    def count(self, axis=0, numeric_only=False, **kw):
        return self._red("count", axis=axis)

    def min(self, axis=0, skipna=True, numeric_only=False, **kw):
        return self._red("min", axis=axis, skipna=skipna)

    def max(self, axis=0, skipna=True, numeric_only=False, **kw):
        return self._red("max", axis=axis, skipna=skipna)

    def any(self, axis=0, skipna=True, **kw):
        return self._red("any", axis=axis)

    def all(self, axis=0, skipna=True, **kw):
        return self._red("all", axis=axis)

    @property
    def size(self):
        return SymScalar(count(self.valid) * len(self.cols), F, "i")

    # ---- shape
    def reset_index(self, drop=False, **kw):
        if drop:
            return self._with(index=_undef_if(self.index_))
        if not self.index_.defined:
            raise Unsupported("reset_index(drop=False) of an undefined index")
        iname = self.index_.name if self.index_.name is not None else "index"
        if iname in self.labels:
            raise StructuralError(f"cannot insert {iname}, already exists")
        cols = [(iname, self.index_.column())] + list(self.cols)
        return SymFrame(cols, self.valid, Idx.undefined(self.nslots), self.prov, self.order)

    def set_index(self, keys, drop=True, **kw):
        if isinstance(keys, (list, tuple)):
            if len(keys) != 1:
                raise Unsupported("multi-column set_index")
            keys = keys[0]
        if isinstance(keys, SymSeries):
            if keys.prov != self.prov:
                raise Unsupported("set_index unaligned series")
            if not same_valid(self.valid, keys.valid):
                # pandas takes the values of the series positionally: the lengths have to agree
                if decide(count(self.valid) != count(keys.valid)):
                    raise StructuralError("set_index: Length mismatch between the frame and the series used as index")
                raise Unsupported("set_index with a differently filtered series of equal length")
            col, name, cols = keys.col, keys.name, list(self.cols)
        else:
            col, name = self.col(keys), keys
            cols = [(k, c) for k, c in self.cols if k != keys] if drop else list(self.cols)
        if col.nullable:
            if col.kind == "b":
                raise Unsupported("set_index on nullable bool column")
            from .core import NAN_LABEL

            idx = Idx([If(c.null, NAN_LABEL, c.num()) for c in col.cells()], name, True, nan=True)
        else:
            idx = Idx([c.num() for c in col.cells()], name, True)
        out = SymFrame(cols, self.valid, idx, self.prov, self.order)
        if "divisions" in kw or "npartitions" in kw or kw.get("sorted") is not None or kw.get("sort") is True:
            # dask's set_index returns the frame sorted by the new index (pandas' set_index does not)
            out = SymFrame(out.cols, out.valid, out.index_, out.prov, None if isinstance(out.order, str) else out.order).sort_index()
        return out

    def squeeze(self, axis=None):
        if len(self.cols) == 1 and axis is None:
            return self._series(self.labels[0]).squeeze()
        n = count(self.valid)
        if decide(n == 1):
            cells = []
            for _, c in self.cols:
                cs = c.cells()
                val = Sum([If(v, x.num(), z3.IntVal(0)) for v, x in zip(self.valid, cs)])
                null = Or(*[And(v, x.null) for v, x in zip(self.valid, cs)])
                cells.append(Cell(val if c.kind != "b" else val != 0, null, c.kind))
            return SymLabelSeries(self.labels, cells)
        return self

    @property
    def T(self):
        raise Unsupported("transpose")

    # ---- order dependent
    def cumsum(self, axis=None, skipna=True, **kw):
        return self._map_cols(lambda s: s.cumsum(skipna=skipna))

    def cummax(self, axis=None, skipna=True, **kw):
        return self._map_cols(lambda s: s.cummax(skipna=skipna))

    def cummin(self, axis=None, skipna=True, **kw):
        return self._map_cols(lambda s: s.cummin(skipna=skipna))

    def shift(self, periods=1, freq=None, **kw):
        return self._map_cols(lambda s: s.shift(periods, freq))

    def rolling(self, window, min_periods=None, center=False, win_type=None, **kw):
        return SymRolling(self, window, min_periods, center, win_type, **kw)

    def diff(self, periods=1, **kw):
        return self._map_cols(lambda s: s.diff(periods))

    def ffill(self, limit=None, **kw):
        return self._map_cols(lambda s: s.ffill(limit=limit))

    def bfill(self, limit=None, **kw):
        return self._map_cols(lambda s: s.bfill(limit=limit))

    def sort_values(self, by, ascending=True, na_position="last", ignore_index=False, **kw):
        by = [by] if not isinstance(by, (list, tuple)) else list(by)
        asc = [ascending] * len(by) if isinstance(ascending, bool) else list(ascending)
        if na_position != "last":
            raise Unsupported("na_position")
        keys = []
        for i in range(self.nslots):
            k = []
            for b, a in zip(by, asc):
                c = self.col(b).cell(i)
                k.append(If(c.null, z3.IntVal(1), z3.IntVal(0)))
                k.append(c.num() if a else -c.num())
            # stable: previous order breaks ties
            if self.order is not None and not isinstance(self.order, str):
                k.extend(self.order[i])
            keys.append(tuple(k))
        return self._with(order=keys, index=_undef_if(self.index_, ignore_index))

    def sort_index(self, ascending=True, **kw):
        if not self.index_.defined or self.index_.labels:
            raise Unsupported("sort_index on undefined index")
        keys = []
        for i in range(self.nslots):
            v = I(self.index_.vals[i])
            k = [v if ascending else -v]
            if self.order is not None and not isinstance(self.order, str):
                k.extend(self.order[i])
            keys.append(tuple(k))
        return self._with(order=keys)

    def _n_extreme(self, n, columns, largest):
        columns = [columns] if not isinstance(columns, (list, tuple)) else list(columns)
        s = self.sort_values(columns, ascending=not largest)
        # pandas nlargest drops NaN keys only if there are enough rows; keep it simple: NaN keys are last (as sort_values does)
        return s.head(n)

    def nlargest(self, n=5, columns=None, **kw):
        return self._n_extreme(n, columns, True)

    def nsmallest(self, n=5, columns=None, **kw):
        return self._n_extreme(n, columns, False)

    def __repr__(self):
        return f"SymFrame({self.labels}, slots={self.nslots})"

    def __bool__(self):
        raise ValueError("truth value of a DataFrame is ambiguous")


_install_binops(SymFrame)

core.SymSeries, core.SymFrame, core.SymLabelSeries, core.SymIndex = SymSeries, SymFrame, SymLabelSeries, SymIndex


# ---------------------------------------------------------------------------------------------- index alignment

def align_rows(a, b, how="outer"):
    """pandas' outer alignment of two series / frames on their index labels (unique labels on each side; a path with
    duplicate labels raises ModelledMisalignment).  Returns both operands over the same slots, NaN where missing."""
    ia, ib = a.index_, b.index_
    if not (ia.defined and ib.defined) or ia.labels or ib.labels:
        raise Unsupported("alignment on an undefined index")
    na, nb = a.nslots, b.nslots
    dup = []
    for x, idx in ((a, ia), (b, ib)):
        for i in range(x.nslots):
            for j in range(i + 1, x.nslots):
                same = z3.simplify(I(idx.vals[i]) == I(idx.vals[j]))
                if not is_f(same):
                    dup.append(And(x.valid[i], x.valid[j], same))
    if dup and decide(Or(*dup)):
        raise ModelledMisalignment("alignment of operands with duplicate index labels")
    match = [[And(a.valid[i], b.valid[j], I(ia.vals[i]) == I(ib.vals[j])) for j in range(nb)] for i in range(na)]
    rows = [(match[i][j], i, j) for i in range(na) for j in range(nb)]
    if how == "outer":
        rows += [(And(a.valid[i], Not(Or(*match[i]))), i, None) for i in range(na)]
        rows += [(And(b.valid[j], Not(Or(*[match[i][j] for i in range(na)]))), None, j) for j in range(nb)]
    valid = [v for v, _, _ in rows]
    labels = [I(ia.vals[i]) if i is not None else I(ib.vals[j]) for _, i, j in rows]
    index = Idx(labels, ia.name if ia.name == ib.name else None, True)
    prov = [(a.prov[i] if i is not None else None, b.prov[j] if j is not None else None) for _, i, j in rows]
    order = [(l,) for l in labels]  # the union index of unequal indexes is sorted

    def side(x, pick):
        def col(c):
            cells = []
            for r in rows:
                k = r[pick]
                cells.append(c.cell(k) if k is not None else Cell(z3.IntVal(0) if c.kind != "b" else F, T, "f" if c.kind != "b" else "b"))
            kinds = {cc.kind for cc in cells}
            if "b" in kinds and len(kinds) > 1:
                raise Unsupported("bool column made nullable by alignment")
            return Col.from_cells(cells)

        if isinstance(x, SymSeries):
            return SymSeries(x.name, col(x.col), valid, index, prov, order)
        return SymFrame([(k, col(c)) for k, c in x.cols], valid, index, prov, order)

    return side(a, 1), side(b, 2)


def reindex_cells(other, base):
    """other.reindex(base.index): the cells of series `other` looked up at the index labels of `base`, NaN where the
    label is missing (pandas' left alignment in fillna / where / mask; duplicate labels in `other` make pandas raise)"""
    ia, ib = base.index_, other.index_
    if not (ia.defined and ib.defined) or ia.labels or ib.labels:
        raise Unsupported("alignment on an undefined index")
    if other.col.kind == "b":
        raise Unsupported("bool column made nullable by alignment")
    dup = []
    for i in range(other.nslots):
        for j in range(i + 1, other.nslots):
            same = z3.simplify(I(ib.vals[i]) == I(ib.vals[j]))
            if not is_f(same):
                dup.append(And(other.valid[i], other.valid[j], same))
    if dup and decide(Or(*dup)):
        raise ModelledMisalignment("reindexing from duplicate index labels")
    oc = other.cells()
    out = []
    for i in range(base.nslots):
        val, null = z3.IntVal(0), T
        for j in reversed(range(other.nslots)):
            m = And(other.valid[j], I(ia.vals[i]) == I(ib.vals[j]))
            val, null = If(m, oc[j].num(), val), If(m, oc[j].null, null)
        out.append(Cell(val, null, "f"))
    return out


# ---------------------------------------------------------------------------------------------- concat

def _from_empty_pandas(o):
    if isinstance(o, pd.DataFrame) and len(o) == 0:
        kinds = []
        for c in o.columns:
            k = o[c].dtype.kind if not isinstance(o[c], pd.DataFrame) else "f"
            kinds.append("b" if k == "b" else ("f" if k == "f" else "i"))
        return SymFrame([(c, Col(k, [])) for c, k in zip(o.columns, kinds)], [], Idx([], o.index.name, True), [], None)
    if isinstance(o, pd.Series) and len(o) == 0:
        k = o.dtype.kind
        return SymSeries(o.name, Col("b" if k == "b" else ("f" if k == "f" else "i"), []), [], Idx([], o.index.name, True), [], None)
    return o


def _concat_columns(objs, join):
    """axis=1 concat of objects over the same rows (identical provenance): the columns side by side"""
    first = objs[0]
    if not all(isinstance(o, (SymFrame, SymSeries)) for o in objs):
        raise Unsupported("concat axis=1 of non frames")
    def as_frame(k, o):
        return SymFrame([(o.name if o.name is not None else k, o.col)], o.valid, o.index_, o.prov, o.order) if isinstance(o, SymSeries) else o

    if not all(o.prov == first.prov and same_valid(o.valid, first.valid) for o in objs):
        # differently indexed inputs: pandas joins them on the index labels (outer: sorted union, inner: common labels); folded pairwise
        if join not in ("outer", "inner"):
            raise Unsupported(f"concat axis=1 join={join!r}")
        acc = as_frame(0, objs[0])
        for k, o in enumerate(objs[1:], 1):
            o = as_frame(k, o)
            if o.prov == acc.prov and same_valid(o.valid, acc.valid):
                acc = SymFrame(list(acc.cols) + list(o.cols), acc.valid, acc.index_, acc.prov, acc.order)
                continue
            a2, b2 = align_rows(acc, o, how=join)
            acc = SymFrame(list(a2.cols) + list(b2.cols), a2.valid, a2.index_, a2.prov, a2.order)
        return acc
    cols = []
    for k, o in enumerate(objs):
        if isinstance(o, SymSeries):
            cols.append((o.name if o.name is not None else k, o.col))
        else:
            cols += list(o.cols)
    return SymFrame(cols, first.valid, first.index_, first.prov, first.order)


def sym_concat(objs, ignore_index=False, axis=0, join="outer", **kw):
    """model of pandas.concat / dask _concat / methods.concat for symbolic pieces (axis 0)"""
    objs = [_from_empty_pandas(o) for o in objs if o is not None]
    if not objs:
        raise Unsupported("concat of nothing")
    if axis not in (0, "index"):
        return _concat_columns(objs, join)
    first = objs[0]
    if all(isinstance(o, SymScalar) or not isinstance(o, SymBase) for o in objs):
        cells = [lit_cell(o) for o in objs]
        n = len(cells)
        return SymSeries(None, Col.from_cells(cells), [T] * n, Idx.undefined(n), [("scalar", i) for i in range(n)], None)
    if any(isinstance(o, SymLabelSeries) for o in objs):
        raise Unsupported("concat of label series")
    if not all(type(o) is type(first) for o in objs):
        raise Unsupported("concat of mixed kinds")
    valid, prov, order_parts = [], [], []
    any_order = any(o.order is not None for o in objs)
    unspec = any(isinstance(o.order, str) for o in objs)
    if unspec:
        any_order = False
    for bi, o in enumerate(objs):
        valid += o.valid
        prov += o.prov
        if any_order:
            for s in range(o.nslots):
                key = o.order[s] if o.order is not None else (z3.IntVal(s),)
                order_parts.append((z3.IntVal(bi),) + tuple(key))
    order = "unspecified" if unspec else None
    if any_order:
        width = max(len(k) for k in order_parts)
        order = [k + (z3.IntVal(0),) * (width - len(k)) for k in order_parts]
    idxs = [o.index_ if not isinstance(o, SymIndex) else o.idx for o in objs]
    defined = all(i.defined for i in idxs) and not ignore_index
    labels = any(i.labels for i in idxs)
    ivals = [v for i in idxs for v in i.vals]
    index = Idx(ivals, idxs[0].name, defined, labels, any(i.nan for i in idxs)) if defined else Idx.undefined(len(ivals), idxs[0].name)
    if isinstance(first, SymIndex):
        return SymIndex(index, valid, prov, order)
    if isinstance(first, SymSeries):
        cells = [c for o in objs for c in o.cells()]
        kinds = {o.col.kind for o in objs if o.nslots}
        kind = None if len(kinds) != 1 else kinds.pop()
        name = first.name if all(o.name == first.name for o in objs) else None
        return SymSeries(name, Col.from_cells(cells, kind), valid, index, prov, order)
    # frames: union of columns in first-seen order (join=outer), missing -> NaN
    labels_ = []
    if all(o.labels == first.labels for o in objs) and len(set(first.labels)) != len(first.labels):
        # identical (duplicated) label lists: pandas concatenates position-wise
        cols = []
        for ci, k in enumerate(first.labels):
            cells = [c for o in objs for c in o.cols[ci][1].cells()]
            cols.append((k, Col.from_cells(cells)))
        return SymFrame(cols, valid, index, prov, order)
    for o in objs:
        if len(set(o.labels)) != len(o.labels):
            raise StructuralError(f"concat of frame with duplicated columns {o.labels}")
        for k in o.labels:
            if k not in labels_:
                labels_.append(k)
    if join == "inner":
        labels_ = [k for k in labels_ if all(k in o.labels for o in objs)]
    cols = []
    for k in labels_:
        cells = []
        for o in objs:
            if k in o.labels:
                cells += o.col(k).cells()
            else:
                cells += [Cell(z3.IntVal(0), T, "f")] * o.nslots
        kinds = {o.col(k).kind for o in objs if k in o.labels}
        kind = kinds.pop() if len(kinds) == 1 and all(k in o.labels for o in objs) else None
        cols.append((k, Col.from_cells(cells, kind)))
    return SymFrame(cols, valid, index, prov, order)


# symbolic values can be operands of real expressions (persist rebuild): give them a stable token
try:
    from dask.base import normalize_token
    import itertools as _it

    _tok_counter = _it.count()

    @normalize_token.register(SymBase)
    def _normalize_sym(x):
        t = getattr(x, "_verif_token", None)
        if t is None:
            t = f"symdf-{type(x).__name__}-{next(_tok_counter)}"
            try:
                object.__setattr__(x, "_verif_token", t)
            except Exception:
                pass
        return t
except ImportError:  # pragma: no cover
    pass
