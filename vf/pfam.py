"""Runs a program family through an engine-P check function and summarises coverage for the evidence file."""
from __future__ import annotations

import collections
import time

from .common import HELD, VIOLATION, INCONCLUSIVE, HARNESS_ERROR, SKIPPED, seed
from . import prun


def run(progs, fn, only=None, jobs=None):
    if only:
        progs = [p for p in progs if _matches(only, p)]
    t0 = time.time()
    results = prun.run_programs(progs, fn, jobs)
    return results, summarise(progs, results, time.time() - t0)


def _matches(only, p):
    """--only: substring of the program name / family, or a regular expression over name, family and note"""
    import re

    if only in p.name or only in p.family:
        return True
    try:
        return re.search(only, f"{p.name} {p.family} {p.note}") is not None
    except re.error:
        return False


def summarise(progs, results, wall):
    st = collections.Counter(r.status for r in results)
    unsupported = collections.Counter()
    callables = set()
    for r in results:
        if r.status == SKIPPED:
            unsupported[(r.extra.get("unsupported") or r.detail)[:90]] += 1
        callables |= set(r.extra.get("callables", []))
    nontrivial = sum(1 for r in results if r.status == HELD and not r.extra.get("trivial"))
    decided_programs = {r.name.split("|")[0] for r in results if r.status in (HELD, VIOLATION)}
    samples = []
    for r in results:
        if r.status == HELD and not r.extra.get("trivial") and len(samples) < 5:
            samples.append({"obligation": r.name, "status": r.status, "detail": r.detail, "solver_s": round(r.solver_s, 3)})
    for r in results:
        if r.status == VIOLATION and len(samples) < 8:
            samples.append({"obligation": r.name, "status": r.status, "detail": r.detail[:300]})
    info = {
        "programs": len(decided_programs),
        "programs_generated": len(progs),
        "programs_skipped_unsupported_not_counted": len({r.name.split("|")[0] for r in results if r.status == SKIPPED} - decided_programs),
        "disagreements_checked": st[VIOLATION] + st[HARNESS_ERROR],
        "p_obligations_nontrivial_unsat": nontrivial,
        "p_status_counts": dict(st),
        "p_unsupported_reasons": dict(unsupported.most_common(25)),
        "p_real_callables_executed_symbolically": sorted(callables)[:120],
        "p_wall_s": round(wall, 1),
        "samples": samples or [{"note": "no decided obligation"}],
    }
    return info
