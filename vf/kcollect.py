"""Collect and run the engine-K harnesses registered for a property."""
from __future__ import annotations

import glob
import importlib
import os

from .common import ROOT, match_only
from . import krun


def harnesses(prop: str, tier: str, only: str | None = None, modules: list[str] | None = None):
    out = []
    for path in sorted(glob.glob(os.path.join(ROOT, "kernels", "k_*.py"))):
        modname = "kernels." + os.path.basename(path)[:-3]
        if modules and modname.split(".")[-1] not in modules:
            continue
        mod = importlib.import_module(modname)
        for h in getattr(mod, "HARNESSES", []):
            if prop not in h["props"]:
                continue
            if tier == "quick" and h.get("tier", "quick") != "quick":
                continue
            if only and not match_only(only, h["fn"]):
                continue
            out.append(h)
    return out


def run(prop: str, tier: str, only=None, modules=None, jobs=8):
    hs = harnesses(prop, tier, only, modules)
    scale = 1.0 if tier == "quick" else 2.0
    rs = krun.run_all(hs, jobs=jobs, scale=scale)
    info = {
        "k_harnesses": len(hs),
        "k_functions_encoded": sorted({f for h in hs for f in h.get("functions", [])}),
        "k_bounds": sorted({f"{h['fn']}: {h.get('bounds', '')}" for h in hs})[:80],
        "k_engine": "CrossHair 0.0.110 (z3 per path); obligation `_ != 2`, reachability twin `_ != 1` must be refuted",
    }
    return rs, info


def samples(rs, n=6):
    return [{"obligation": r.name, "status": r.status, "detail": r.detail[:200], **{k: v for k, v in r.extra.items() if k in ("bounds", "crosshair_s")}} for r in rs[:n]]
