"""Runs engine T (smt/fplemma.py) and turns the answers into Results; sat models are replayed on the real property."""
from __future__ import annotations

import os
import re
from concurrent.futures import ThreadPoolExecutor

from .common import HELD, VIOLATION, INCONCLUSIVE, HARNESS_ERROR, Result, WORK


def _replay(n_in: int, n: int):
    """Run the real RepartitionToFewer._partitions_boundaries for concrete counts; True = lemma really fails."""
    from types import SimpleNamespace
    from dask_expr._repartition import RepartitionToFewer

    class _F(RepartitionToFewer):
        _name = "few"
        def __new__(cls, *a, **k):
            return object.__new__(cls)
        def __init__(self, frame, n):
            self.operands = [frame, n]

    e = _F(SimpleNamespace(_name="src", npartitions=n_in, divisions=tuple(range(n_in + 1))), n)
    try:
        b = e._partitions_boundaries
    except Exception as ex:
        return True, f"raised {type(ex).__name__}: {ex}"
    ok = b[0] == 0 and b[-1] == n_in and all(x < y for x, y in zip(b, b[1:]))
    return (not ok), f"boundaries={b}"


def run_lemma(tier: str, only=None):
    from smt import fplemma

    if only and "lemma" not in only and not only.startswith("L"):
        return []
    bound = 128 if tier == "quick" else 512
    timeout = 300 if tier == "quick" else 3000
    os.makedirs(WORK, exist_ok=True)
    try:
        qs, elt = fplemma.queries(bound)
    except fplemma.Untranslatable as e:
        return [Result("T.lemma", INCONCLUSIVE, "", f"boundary expression no longer translatable: {e}")]
    out = []

    def one(item):
        name, text = item
        r, raw, dt = fplemma.solve(text, timeout, WORK)
        extra = {"bounds": f"1 <= n < n_in <= {bound}, IEEE double semantics (QF_BVFP), expression `{elt}` re-extracted from source",
                 "functions": ["dask_expr._repartition.RepartitionToFewer._partitions_boundaries"], "crosshair_s": round(dt, 1), "solver": "cvc5 1.0.3"}
        if r == "unsat":
            return Result(f"T.{name}", HELD, "", "unsat", None, dt, 1, extra)
        blocked = []
        while r == "sat" and len(blocked) < 8:
            model = fplemma.counterexample(text, timeout, WORK)
            vals = dict(re.findall(r"\((\w+) #[xb]([0-9a-fA-F]+)\)", model))
            try:
                conv = lambda s: int(s, 16) if len(s) == 8 else int(s, 2)
                n_in, n = conv(vals["n_in"]), conv(vals["n"])
            except Exception:
                return Result(f"T.{name}", INCONCLUSIVE, "", f"sat but model unreadable: {model[:200]}", None, dt, 1, extra)
            bad, msg = _replay(n_in, n)
            if bad:
                return Result(f"T.{name}", VIOLATION, f"T.{name}", f"n_in={n_in} n={n}: {msg}",
                              {"engine": "T", "n_in": n_in, "n": n}, dt, 1 + len(blocked), extra)
            # the raw formula fails here but the real function's post-processing repairs it: block this model and ask again
            blocked.append((n_in, n))
            text = text.replace("(check-sat)", f"(assert (not (and (= n_in (_ bv{n_in} 32)) (= n (_ bv{n} 32)))))\n(check-sat)")
            r, raw, dt2 = fplemma.solve(text, timeout, WORK)
            dt += dt2
        if r == "unsat":
            return Result(f"T.{name}", HELD, "", f"unsat after blocking {len(blocked)} models whose real output is still valid: {blocked}", None, dt, 1 + len(blocked), extra)
        return Result(f"T.{name}", INCONCLUSIVE, "", f"cvc5: {raw}", None, dt, 1, extra)

    with ThreadPoolExecutor(4) as ex:
        out = list(ex.map(one, qs.items()))
    return out
