"""C16 by-product (concrete, no solver): collections are pickled by this process and unpickled by a *fresh* interpreter with another working
directory and another hash seed; the receiver reports name, schema, divisions and the computed result, which must equal the sender's."""
from __future__ import annotations

import os
import pickle
import shutil
import subprocess
import tempfile

from .common import HELD, VIOLATION, INCONCLUSIVE, HARNESS_ERROR, Result, ROOT

RECEIVER = r'''
import sys, pickle, warnings; warnings.filterwarnings("ignore")
import pandas as pd, dask
dask.config.set({"dataframe.convert-string": False, "dataframe.shuffle.method": "tasks", "scheduler": "sync"})
import dask_expr
items = pickle.load(open(sys.argv[1], "rb"))
out = []
for name, blob in items:
    try:
        c = pickle.loads(blob)
        r = c.compute()
        val = (sorted(map(repr, r.values.tolist())), list(map(repr, getattr(r, "columns", [getattr(r, "name", None)]))), r.index.name) if hasattr(r, "values") else repr(r)
        out.append((name, c._name, tuple(map(repr, c.divisions)), repr(c._meta.dtypes) if hasattr(c._meta, "dtypes") else "", val))
    except Exception as e:
        out.append((name, "RAISED", type(e).__name__, str(e)[:200], None))
pickle.dump(out, open(sys.argv[2], "wb"))
'''


def _describe(c):
    r = c.compute()
    val = (sorted(map(repr, r.values.tolist())), list(map(repr, getattr(r, "columns", [getattr(r, "name", None)]))), r.index.name) if hasattr(r, "values") else repr(r)
    return (c._name, tuple(map(repr, c.divisions)), repr(c._meta.dtypes) if hasattr(c._meta, "dtypes") else "", val)


def run(tier):
    import dask
    import numpy as np
    import pandas as pd

    dask.config.set({"dataframe.convert-string": False, "dataframe.shuffle.method": "tasks", "scheduler": "sync"})
    import dask_expr as dx

    base = os.path.join(ROOT, ".work", "pq")
    os.makedirs(base, exist_ok=True)
    home = tempfile.mkdtemp(prefix="xproc-", dir=base)
    old = os.getcwd()
    results = []
    try:
        os.chdir(home)
        os.makedirs("data", exist_ok=True)
        pdf = pd.DataFrame({"a": np.arange(12) % 5, "b": np.arange(12) * 1.5, "c": np.arange(12)}, index=pd.Index(np.arange(100, 112) * 2, name="k"))
        for i in range(3):
            pdf.iloc[4 * i:4 * i + 4].to_parquet(os.path.join("data", f"part.{i}.parquet"))
        big = pd.DataFrame({"k": np.random.RandomState(3).permutation(400) % 97, "v": np.arange(400)})
        L = dx.from_pandas(pdf, npartitions=3)
        B = dx.from_pandas(big, npartitions=4)
        P = dx.read_parquet("data")  # a *relative* path: the receiver runs in another directory
        colls = {
            "frame": L, "chain": (L + 1)[L.a > 1][["c", "a"]], "reduction": L.c.sum(), "groupby": L.groupby("a").c.sum(), "merge": L.merge(L[["a", "b"]], on="a"),
            "set_index-logical": B.set_index("k"), "sort_values-logical": B.sort_values("k"), "set_index-optimized": B.set_index("k").optimize(),
            "set_index-user-divisions": L.set_index("a", divisions=[0, 2, 4]), "shuffle": L.shuffle("a"),
            "parquet-relative": P, "parquet-relative-projected": P[["a"]] + 1, "parquet-relative-optimized": (P[P.a > 1].c.sum()).optimize(), "parquet-partitions": P.partitions[[2, 0]].b,
            "parquet-lowered": P[["c"]].optimize(fuse=False),
        }
        want, items = {}, []
        for name, c in colls.items():
            try:
                blob = pickle.dumps(c)
                want[name] = _describe(pickle.loads(blob))  # the sender's own view after a local round trip
                items.append((name, blob))
            except Exception as e:
                results.append(Result(f"crossproc.{name}", HARNESS_ERROR if False else INCONCLUSIVE, "", f"cannot be pickled / computed on the sending side: {type(e).__name__}: {str(e)[:150]}"))
        msg, reply = os.path.join(home, "msg.pkl"), os.path.join(home, "reply.pkl")
        pickle.dump(items, open(msg, "wb"))
        elsewhere = tempfile.mkdtemp(prefix="xproc-cwd-", dir=base)
        for hs in ("1", "12345") if tier == "quick" else ("1", "2", "12345", "999"):
            env = dict(os.environ, PYTHONHASHSEED=hs)
            p = subprocess.run([os.path.join(ROOT, ".venv/bin/python"), "-W", "ignore", "-c", RECEIVER, msg, reply], cwd=elsewhere, env=env, capture_output=True, text=True, timeout=600)
            if p.returncode != 0:
                return results + [Result("crossproc.receiver", INCONCLUSIVE, "", f"receiver failed: {p.stderr[-300:]}")]
            for name, *got in pickle.load(open(reply, "rb")):
                if tuple(got) != tuple(want[name]):
                    what = "raises " + str(got[1:3]) if got[0] == "RAISED" else next((lbl for lbl, x, y in zip(("name", "divisions", "dtypes", "result"), got, want[name]) if x != y), "?") + " differs"
                    results.append(Result(f"crossproc.{name}", VIOLATION, f"crossproc.{name}", f"a fresh process (other working directory, PYTHONHASHSEED={hs}) unpickles the collection and {what}: {str(got)[:160]} vs sender {str(want[name])[:160]}",
                                          {"engine": "X", "kind": "crossproc", "collection": name}))
        seen = {r.name for r in results}
        for name in colls:
            if f"crossproc.{name}" not in seen:
                results.append(Result(f"crossproc.{name}", HELD, "", "a fresh process with another cwd and hash seed agrees in name, divisions, dtypes and result (concrete by-product, no solver)", extra={"trivial": True}))
    finally:
        os.chdir(old)
        shutil.rmtree(home, ignore_errors=True)
        shutil.rmtree(locals().get("elsewhere", home), ignore_errors=True)
    # one result per collection (first violation wins)
    out, names = [], set()
    for r in sorted(results, key=lambda r: r.status != VIOLATION):
        if r.name not in names:
            names.add(r.name)
            out.append(r)
    return out
