"""C12: row-routing obligations on the real shuffle graphs (RearrangeByColumn._lower -> Shuffle._lower ->
TaskShuffle/SimpleShuffle._layer): one symbolic optional row per input partition, uninterpreted hash."""
from __future__ import annotations

import itertools
import time
import traceback

import z3

from .common import HELD, VIOLATION, INCONCLUSIVE, HARNESS_ERROR, SKIPPED, Result
from . import prun


def configs(tier):
    top = 9 if tier == "quick" else 13
    out = []
    for n_in in range(1, top + 1):
        for n_out in range(1, top + 1):
            for mb in (2, 3, 4):
                if tier == "quick" and not (n_in in (1, 2, 4, 5, 9) or n_out in (1, 3, 9) or n_in == n_out):
                    continue
                out.append(dict(n_in=n_in, n_out=n_out, mb=mb, method="tasks", ignore_index=False, on="a", subset=None))
    # other knobs on a thinner grid
    for n_in, n_out in ((3, 3), (5, 2), (2, 5), (9, 9), (7, 4), (4, 7)):
        for mb in (2, 3):
            out.append(dict(n_in=n_in, n_out=n_out, mb=mb, method="simple", ignore_index=False, on="a", subset=None))
            out.append(dict(n_in=n_in, n_out=n_out, mb=mb, method="tasks", ignore_index=True, on="a", subset=None))
            out.append(dict(n_in=n_in, n_out=n_out, mb=mb, method="tasks", ignore_index=False, on="index", subset=None))
            out.append(dict(n_in=n_in, n_out=n_out, mb=mb, method="tasks", ignore_index=False, on="ab", subset=None))
    # subsets of output partitions (incl. more than max_branch of them on staged shuffles)
    for n_in, n_out, mb in ((9, 9, 3), (9, 9, 2), (5, 5, 2), (4, 4, 2), (8, 8, 2), (9, 5, 3), (5, 9, 3), (3, 3, 4)):
        subs = []
        if n_out <= 5:
            for k in range(1, n_out + 1):
                subs += list(itertools.combinations(range(n_out), k))
        else:
            subs += list(itertools.combinations(range(n_out), mb + 1))[:: (7 if tier == "quick" else 2)]
            subs += [tuple(reversed(range(n_out)))[: mb + 2], (n_out - 1, 0), (0,), tuple(range(n_out))]
        for sub in subs[: (40 if tier == "quick" else 400)]:
            out.append(dict(n_in=n_in, n_out=n_out, mb=mb, method="tasks", ignore_index=False, on="a", subset=list(sub)))
    return out


def _name(c):
    return f"shuffle(n_in={c['n_in']}, n_out={c['n_out']}, max_branch={c['mb']}, method={c['method']}, ignore_index={c['ignore_index']}, on={c['on']}, subset={c['subset']})"


def _build(c, frames):
    import dask_expr as dx
    from dask import delayed

    n = c["n_in"]
    pdf = frames["L"]
    parts = [pdf.iloc[i:i + 1] for i in range(n)]
    df = dx.from_delayed([delayed(p) for p in parts], meta=pdf.iloc[:0], verify_meta=False)
    on = {"a": "a", "ab": ["a", "b"], "index": None}[c["on"]]
    kw = dict(npartitions=c["n_out"], max_branch=c["mb"], shuffle_method=c["method"], ignore_index=c["ignore_index"])
    if c["on"] == "index":
        out = df.shuffle(on_index=True, **kw)
    else:
        out = df.shuffle(on, **kw)
    if c["subset"] is not None:
        out = out.partitions[c["subset"]]
    return df, out


def _assignment(plan, it):
    """source row -> the partition number term the plan's own AssignPartitioningIndex node gave it"""
    assign = {}
    for e in plan.walk():
        if type(e).__name__ != "AssignPartitioningIndex":
            continue
        for i in range(e.npartitions):
            val = it.memo.get((e._name, i))
            if val is None or not hasattr(val, "labels") or "_partitions" not in val.labels:
                continue
            col = val.col("_partitions")
            for k, p in enumerate(val.prov):
                assign[p] = col.vals[k]
    return assign


def check(c) -> list[Result]:
    prun.init()
    from symdf.core import Unsupported, StructuralError, And, Or, Not, If, Sum
    from symdf.interp import GraphError, run_graph
    from symdf import conc
    from dask_expr._expr import optimize

    name = _name(c)
    prog = prun.Program("shuffle", [prun.Src("L", c["n_in"], {"a": "i", "b": "f", "c": "i"}, c["n_in"], how="delayed", cuts=tuple(range(c["n_in"] + 1)), optional_rows=True)])
    env, frames = prun.make_env(prog)
    t0 = time.time()

    def replay(tables, what):
        """real execution: every present row exactly once over all output partitions, equal keys co-located"""
        fr, present = prun._frames_of(tables)
        pdf = fr["L"]
        keep = present["L"]
        import dask_expr as dx
        from dask import delayed
        import pandas as pd

        parts = [pdf.iloc[i:i + 1] if keep[i] else pdf.iloc[0:0] for i in range(c["n_in"])]
        df = dx.from_delayed([delayed(p) for p in parts], meta=pdf.iloc[:0], verify_meta=False)
        c2 = dict(c)
        try:
            _, out = _build(c2, {"L": pdf}) if all(keep) else (None, None)
            if out is None:
                on = {"a": "a", "ab": ["a", "b"], "index": None}[c["on"]]
                kw = dict(npartitions=c["n_out"], max_branch=c["mb"], shuffle_method=c["method"], ignore_index=c["ignore_index"])
                out = df.shuffle(on_index=True, **kw) if c["on"] == "index" else df.shuffle(on, **kw)
                if c["subset"] is not None:
                    out = out.partitions[c["subset"]]
            got = prun.concrete_parts(optimize(out.expr, fuse=False))
        except Exception as e:
            return True, f"real shuffle raises {type(e).__name__}: {str(e)[:200]}"
        want = pd.concat(parts)
        allrows = pd.concat(got)
        if c["subset"] is not None:
            try:
                c_full = dict(c, subset=None)
                on = {"a": "a", "ab": ["a", "b"], "index": None}[c["on"]]
                kw = dict(npartitions=c["n_out"], max_branch=c["mb"], shuffle_method=c["method"], ignore_index=c["ignore_index"])
                full_q = df.shuffle(on_index=True, **kw) if c["on"] == "index" else df.shuffle(on, **kw)
                full = prun.concrete_parts(optimize(full_q.expr, fuse=False))
            except Exception as e:
                return None, f"full shuffle fails: {type(e).__name__}: {e}"
            if len(got) != len(c["subset"]):
                return True, f"{len(got)} partitions for {len(c['subset'])} requested"
            for j, pnum in enumerate(c["subset"]):
                same, msg = conc.same_pandas(full[pnum].reset_index(drop=True), got[j].reset_index(drop=True), False, False)
                if not same:
                    return True, f"requested output {pnum} (position {j}) differs from partition {pnum} of the full shuffle: {msg}"
        if c["subset"] is None:
            same, msg = conc.same_pandas(want.reset_index(drop=True), allrows.reset_index(drop=True), False, False)
            if not same:
                return True, "rows are not a permutation of the input: " + msg
        keycols = {"a": ["a"], "ab": ["a", "b"], "index": None}[c["on"]]
        seen = {}
        for j, g in enumerate(got):
            keys = g.index.tolist() if keycols is None else [tuple(repr(x) for x in r) for r in g[keycols].itertuples(index=False, name=None)]
            for k in keys:
                if seen.setdefault(k, j) != j:
                    return True, f"key {k} found in partitions {seen[k]} and {j}"
        return False, "real execution satisfies the property"

    try:
        df, out = _build(c, frames)
        plan = optimize(out.expr, fuse=False)
    except Exception as e:
        differs, msg = replay(conc.tables_from_model(env, None, 1), "plan")
        return [Result(name, VIOLATION if differs else HARNESS_ERROR, name, f"planning fails: {type(e).__name__}: {str(e)[:200]}; replay: {msg}", {"engine": "P", "kind": "shuffle", "config": c})]
    try:
        parts, it = run_graph(plan, env)
    except Unsupported as e:
        differs, msg = replay(conc.tables_from_model(env, None, 1), "plan")
        if differs:
            return [Result(name, VIOLATION, name, f"graph fails for every input ({e}); replay: {msg}", {"engine": "P", "kind": "shuffle", "config": c})]
        return [Result(name, SKIPPED, "", f"unsupported: {e}", extra={"unsupported": str(e)})]
    except (StructuralError, GraphError, KeyError) as e:
        differs, msg = replay(conc.tables_from_model(env, None, 1), "plan")
        return [Result(name, VIOLATION if differs else HARNESS_ERROR, name, f"graph fails for every input: {type(e).__name__}: {e}; replay: {msg}", {"engine": "P", "kind": "shuffle", "config": c})]
    except Exception as e:
        return [Result(name, HARNESS_ERROR, name, f"interpreter crashed: {type(e).__name__}: {e}\n{traceback.format_exc()[-1200:]}")]
    # the plan's own partition assignment per source row (from the AssignPartitioningIndex node)
    assign = _assignment(plan, it)
    src_rows = [("L", r) for r in range(c["n_in"])]
    present = {p: env.row_valid[p] for p in src_rows}
    outputs = list(range(c["n_out"])) if c["subset"] is None else list(c["subset"])
    if len(parts) != len(outputs):
        return [Result(name, VIOLATION, name, f"{len(parts)} output partitions computed, {len(outputs)} reported", {"engine": "P", "kind": "shuffle", "config": c})]
    mult = {p: [] for p in src_rows}
    colocated = {p: [] for p in src_rows}
    payload_ok = {p: [] for p in src_rows}
    src = env.convert(frames["L"])
    from symdf.core import cell_eq

    for j, part in zip(outputs, parts):
        for s, p in enumerate(part.prov):
            if p not in mult:
                return [Result(name, HARNESS_ERROR, name, f"output row with unknown provenance {p}")]
            mult[p].append(If(part.valid[s], z3.IntVal(1), z3.IntVal(0)))
            if p in assign:
                colocated[p].append(z3.Implies(part.valid[s], assign[p] == j))
            r = p[1]
            for lab in part.labels:
                payload_ok[p].append(z3.Implies(part.valid[s], cell_eq(part.col(lab).cell(s), src.col(lab).cell(r))))
    nq, total = 0, 0.0
    if not assign:
        return [Result(name, INCONCLUSIVE, "", "no AssignPartitioningIndex output found in the graph: routing oracle unavailable")]
    # (a) per source row (rows are routed independently): it appears exactly once in exactly the requested outputs its
    #     assigned partition number names (repeated outputs of a subset repeat it), with unchanged payload
    nslot_conditions = 0
    for p in src_rows:
        expect = Sum([If(And(present[p], assign[p] == j), z3.IntVal(1), z3.IntVal(0)) for j in outputs])
        prop = z3.And(Sum(mult[p]) == expect, *colocated[p], *payload_ok[p])
        nslot_conditions += len(colocated[p])
        r, model, dt = prun.solve(env.constraints, z3.Not(prop), 120000)
        nq += 1
        total += dt
        if r == "sat":
            tables = conc.tables_from_model(env, model)
            differs, msg = replay(tables, "routing")
            st = VIOLATION if differs else HARNESS_ERROR
            return [Result(name, st, name, f"routing obligation fails in the model for source row {p}; replay: {msg}", {"engine": "P", "kind": "shuffle", "config": c}, total, nq)]
        if r != "unsat":
            return [Result(name, INCONCLUSIVE, "", f"z3 unknown on row {p}", None, total, nq)]
    colocated = [x for v in colocated.values() for x in v]
    # (b) the assignment is a function of the key only: equal keys -> equal partition number
    keycols = {"a": ["a"], "ab": ["a", "b"], "index": None}[c["on"]]
    funs = []
    from symdf.core import cell_eq

    for p, q in itertools.combinations(src_rows, 2):
        if keycols is None:
            same = src.index_.vals[p[1]] == src.index_.vals[q[1]]
        else:
            same = And(*[cell_eq(src.col(k).cell(p[1]), src.col(k).cell(q[1])) for k in keycols])
        funs.append(z3.Implies(And(same), assign[p] == assign[q]))
    inrange = [And(assign[p] >= 0, assign[p] < c["n_out"]) for p in src_rows]
    r2, model2, dt2 = prun.solve(env.constraints, z3.Not(z3.And(*funs, *inrange)))
    nq += 1
    total += dt2
    if r2 == "sat":
        tables = conc.tables_from_model(env, model2)
        differs, msg = replay(tables, "function")
        return [Result(name, VIOLATION if differs else HARNESS_ERROR, name, f"partition number is not a function of the key; replay: {msg}", {"engine": "P", "kind": "shuffle", "config": c}, total, nq)]
    if r2 != "unsat":
        return [Result(name, INCONCLUSIVE, "", "z3 unknown", None, total, nq)]
    # reachability twin: some row can reach the last requested output
    r3, _, dt3 = prun.solve(env.constraints, Or(*[And(present[p], assign[p] == outputs[-1]) for p in src_rows]), 20000)
    nq += 1
    total += dt3
    if r3 != "sat":
        return [Result(name, INCONCLUSIVE, "", f"twin: output {outputs[-1]} unreachable ({r3})", None, total, nq)]
    return [Result(name, HELD, "", f"unsat: permutation, co-location, payload ({len(colocated)} slot conditions), key-functionality", None, total, nq,
                   {"callables": sorted(set(it.calls))[:40], "slots": sum(p.nslots for p in parts)})]


def check_cross_frame(tier):
    """a key gets the same partition number in every frame shuffled to the same count, also int vs float keys"""
    prun.init()
    from symdf.interp import run_graph
    from symdf.core import And, Not, I
    from dask_expr._expr import optimize
    import dask_expr as dx
    from dask import delayed

    results = []
    for n_out in (2, 3, 5) if tier == "quick" else (2, 3, 4, 5, 7, 9):
        for kinds in (("i", "i"), ("i", "f"), ("f", "f")):
            name = f"cross-frame(n_out={n_out}, key dtypes={kinds})"
            prog = prun.Program("x", [prun.Src("L", 2, {"a": kinds[0], "x": "i"}, 2, how="delayed", cuts=(0, 1, 2)), prun.Src("R", 3, {"a": kinds[1], "y": "i"}, 3, how="delayed", cuts=(0, 1, 2, 3))])
            env, frames = prun.make_env(prog)
            assign = {}
            try:
                for nm in ("L", "R"):
                    pdf = frames[nm]
                    n = len(pdf)
                    df = dx.from_delayed([delayed(pdf.iloc[i:i + 1]) for i in range(n)], meta=pdf.iloc[:0], verify_meta=False)
                    plan = optimize(df.shuffle("a", npartitions=n_out).expr, fuse=False)
                    parts, it = run_graph(plan, env)
                    assign.update(_assignment(plan, it))
                conds = []
                L, R = env.convert(frames["L"]), env.convert(frames["R"])
                for i in range(2):
                    for j in range(3):
                        a, b = L.col("a").cell(i), R.col("a").cell(j)
                        conds.append(z3.Implies(And(Not(a.null), Not(b.null), a.num() == b.num()), assign[("L", i)] == assign[("R", j)]))
                r, model, dt = prun.solve(env.constraints, z3.Not(z3.And(*conds)))
            except Exception as e:
                results.append(Result(name, SKIPPED, "", f"{type(e).__name__}: {e}", extra={"unsupported": str(e)}))
                continue
            if r == "unsat":
                results.append(Result(name, HELD, "", "unsat: equal key values hash to the same output partition in both frames (keys are cast to float64 before hashing)", None, dt, 1))
            elif r == "sat":
                # replay: real frames with the same key value as int and as float
                import pandas as pd

                l = pd.DataFrame({"a": pd.array([3, 7], dtype="int64" if kinds[0] == "i" else "float64"), "x": [1, 2]})
                rr = pd.DataFrame({"a": pd.array([7, 3, 5], dtype="int64" if kinds[1] == "i" else "float64"), "y": [1, 2, 3]})
                pl = prun.concrete_parts(optimize(dx.from_pandas(l, npartitions=2).shuffle("a", npartitions=n_out).expr))
                pr = prun.concrete_parts(optimize(dx.from_pandas(rr, npartitions=3).shuffle("a", npartitions=n_out).expr))
                where = lambda parts, v: [j for j, g in enumerate(parts) if (g.a == v).any()]
                bad = [v for v in (3, 7) if where(pl, v) != where(pr, v)]
                results.append(Result(name, VIOLATION if bad else HARNESS_ERROR, name, f"model: equal keys may land in different partitions; replay: keys {bad} differ" if bad else "model counterexample does not reproduce", {"engine": "P", "kind": "cross-frame"}, dt, 1))
            else:
                results.append(Result(name, INCONCLUSIVE, "", "z3 unknown", None, dt, 1))
    # multi-column keys: the partition number of a key tuple must not depend on where the key columns sit in the frame
    for n_out in (2, 3) if tier == "quick" else (2, 3, 5, 7):
        name = f"cross-frame(n_out={n_out}, key=['a','b'], different column layouts)"
        prog = prun.Program("x", [prun.Src("L", 2, {"a": "i", "b": "i", "v": "i"}, 2, how="delayed", cuts=(0, 1, 2)), prun.Src("R", 2, {"w": "i", "b": "i", "a": "i"}, 2, how="delayed", cuts=(0, 1, 2))])
        env, frames = prun.make_env(prog)
        assign = {}
        try:
            for nm in ("L", "R"):
                pdf = frames[nm]
                df = dx.from_delayed([delayed(pdf.iloc[i:i + 1]) for i in range(len(pdf))], meta=pdf.iloc[:0], verify_meta=False)
                plan = optimize(df.shuffle(["a", "b"], npartitions=n_out).expr, fuse=False)
                parts, it = run_graph(plan, env)
                assign.update(_assignment(plan, it))
            L, R = env.convert(frames["L"]), env.convert(frames["R"])
            conds = []
            for i in range(2):
                for j in range(2):
                    same = And(L.col("a").cell(i).num() == R.col("a").cell(j).num(), L.col("b").cell(i).num() == R.col("b").cell(j).num())
                    conds.append(z3.Implies(same, assign[("L", i)] == assign[("R", j)]))
            r, model, dt = prun.solve(env.constraints, z3.Not(z3.And(*conds)))
        except Exception as e:
            results.append(Result(name, SKIPPED, "", f"{type(e).__name__}: {e}", extra={"unsupported": str(e)}))
            continue
        if r == "unsat":
            results.append(Result(name, HELD, "", "unsat: equal key tuples get the same partition number whatever the column layout", None, dt, 1))
        elif r == "sat":
            import pandas as pd

            keys = [(a, b) for a in range(4) for b in range(4)]
            l = pd.DataFrame({"a": [k[0] for k in keys], "b": [k[1] for k in keys], "v": 0})
            rr = pd.DataFrame({"w": 0, "b": [k[1] for k in keys], "a": [k[0] for k in keys]})
            pl = prun.concrete_parts(optimize(dx.from_pandas(l, npartitions=2).shuffle(["a", "b"], npartitions=n_out).expr))
            pr = prun.concrete_parts(optimize(dx.from_pandas(rr, npartitions=2).shuffle(["a", "b"], npartitions=n_out).expr))
            where = lambda parts, k: [j for j, g in enumerate(parts) if ((g.a == k[0]) & (g.b == k[1])).any()]
            bad = [k for k in keys if where(pl, k) != where(pr, k)]
            results.append(Result(name, VIOLATION if bad else HARNESS_ERROR, name, f"equal key tuples land in different partitions of the two frames, e.g. {bad[:3]}" if bad else "model counterexample does not reproduce",
                                  {"engine": "P", "kind": "cross-frame-multi"}, dt, 1))
        else:
            results.append(Result(name, INCONCLUSIVE, "", "z3 unknown", None, dt, 1))
    # a key that is the (named) index in one frame and a column in the other: the same key tuple, in the same order, must be hashed
    for n_out in (2, 3) if tier == "quick" else (2, 3, 5, 7):
        for keys in (["a"], ["a", "b"], ["b", "a"]):
            name = f"cross-frame(n_out={n_out}, key={keys}, 'a' is the index of one frame)"
            prog = prun.Program("x", [prun.Src("L", 2, {"b": "i", "v": "i"}, 2, how="delayed", cuts=(0, 1, 2), divisions=(0, 10, 20), index_name="a"),
                                      prun.Src("R", 2, {"w": "i", "b": "i", "a": "i"}, 2, how="delayed", cuts=(0, 1, 2))])
            env, frames = prun.make_env(prog)
            assign = {}
            try:
                for nm in ("L", "R"):
                    pdf = frames[nm]
                    divs = (0, 10, 20) if nm == "L" else None
                    df = dx.from_delayed([delayed(pdf.iloc[i:i + 1]) for i in range(len(pdf))], meta=pdf.iloc[:0], divisions=divs, verify_meta=False)
                    plan = optimize(df.shuffle(keys if len(keys) > 1 else keys[0], npartitions=n_out).expr, fuse=False)
                    parts, it = run_graph(plan, env)
                    assign.update(_assignment(plan, it))
                L, R = env.convert(frames["L"]), env.convert(frames["R"])
                conds = []
                for i in range(2):
                    for j in range(2):
                        same = [I(L.index_.vals[i]) == R.col("a").cell(j).num()]
                        if "b" in keys:
                            same.append(L.col("b").cell(i).num() == R.col("b").cell(j).num())
                        conds.append(z3.Implies(And(*same), assign[("L", i)] == assign[("R", j)]))
                r, model, dt = prun.solve(env.constraints, z3.Not(z3.And(*conds)))
            except Exception as e:
                results.append(Result(name, SKIPPED, "", f"{type(e).__name__}: {e}", extra={"unsupported": str(e)}))
                continue
            if r == "unsat":
                results.append(Result(name, HELD, "", "unsat: an index key and a column key with equal values get the same partition number", None, dt, 1))
            elif r == "sat":
                import pandas as pd

                ks = [(a, b) for a in range(5) for b in range(4)]
                l = pd.DataFrame({"b": [k[1] for k in ks], "v": 0}, index=pd.Index([k[0] for k in ks], name="a"))
                rr = pd.DataFrame({"w": 0, "b": [k[1] for k in ks], "a": [k[0] for k in ks]})
                key = keys if len(keys) > 1 else keys[0]
                pl = prun.concrete_parts(optimize(dx.from_pandas(l, npartitions=2, sort=False).shuffle(key, npartitions=n_out).expr))
                pr = prun.concrete_parts(optimize(dx.from_pandas(rr, npartitions=2).shuffle(key, npartitions=n_out).expr))
                wl = lambda parts, k: [j for j, g in enumerate(parts) if ((g.index == k[0]) & ((g.b == k[1]) | ("b" not in keys))).any()]
                wr = lambda parts, k: [j for j, g in enumerate(parts) if ((g.a == k[0]) & ((g.b == k[1]) | ("b" not in keys))).any()]
                bad = [k for k in ks if wl(pl, k) != wr(pr, k)]
                results.append(Result(name, VIOLATION if bad else HARNESS_ERROR, name, f"equal keys land in different partitions of the two frames, e.g. {bad[:3]}" if bad else "model counterexample does not reproduce",
                                      {"engine": "P", "kind": "cross-frame-index"}, dt, 1))
            else:
                results.append(Result(name, INCONCLUSIVE, "", "z3 unknown", None, dt, 1))
    return results
