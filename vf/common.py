"""Shared plumbing: verdict records, evidence files, known findings, exit codes."""
from __future__ import annotations

import json
import os
import sys
import time
from dataclasses import dataclass, field

ROOT = "/verif"
WORK = os.path.join(ROOT, ".work")
EVID = os.environ.get("VERIF_EVIDENCE_DIR") or os.path.join(ROOT, "evidence")  # (the seed matrix points its runs elsewhere so that they never touch the committed evidence)
FINDINGS = os.path.join(ROOT, "known_findings.txt")

EXIT_OK, EXIT_VIOLATION, EXIT_INCONCLUSIVE, EXIT_HARNESS = 0, 1, 2, 3

HELD, VIOLATION, INCONCLUSIVE, HARNESS_ERROR, SKIPPED = "held", "violation", "inconclusive", "harness_error", "skipped"


def seed() -> int:
    try:
        return int(os.environ.get("VERIF_SEED", "0"))
    except ValueError:
        return 0


@dataclass
class Result:
    """Outcome of one obligation (one solver query or one CrossHair condition)."""

    name: str  # obligation id, stable across runs
    status: str  # HELD / VIOLATION / INCONCLUSIVE / HARNESS_ERROR / SKIPPED
    signature: str = ""  # identifies *what* fails (program text + stage, or harness + region)
    detail: str = ""
    replay: dict | None = None  # JSON-able description that `check --replay` can re-run
    solver_s: float = 0.0
    queries: int = 0
    extra: dict = field(default_factory=dict)


def load_findings():
    """known_findings.txt, one entry per line:
         open: property=<id>[,<id>...] signature=<signature> :: <what fails>
         fixed: property=<id>[,<id>...] <commit> <what failed>
    `fixed` lines are documentation only (they suppress nothing)."""
    out = []
    if os.path.exists(FINDINGS):
        for line in open(FINDINGS):
            line = line.strip()
            if not line or line.startswith("#"):
                continue
            if line.startswith("open:"):
                head, _, what = line[5:].partition("::")
                props, _, sig = head.strip().partition(" signature=")
                out.append({"status": "open", "properties": props.replace("property=", "").strip().split(","), "signature": sig.strip(), "what": what.strip()})
            elif line.startswith("fixed:"):
                out.append({"status": "fixed", "line": line})
    return out


def finding_for(prop: str, signature: str):
    """An *open* finding listed for this property whose signature equals the violation's signature."""
    for f in load_findings():
        if f.get("status") == "open" and prop in f["properties"] and f["signature"] == signature:
            return f
    return None


def write_replay(prop: str, name: str, payload: dict) -> str:
    d = os.path.join(WORK, "replay")
    os.makedirs(d, exist_ok=True)
    safe = "".join(c if c.isalnum() or c in "-_." else "_" for c in name)[:120]
    path = os.path.join(d, f"{prop}-{safe}.json")
    with open(path, "w") as f:
        json.dump({"property": prop, "name": name, **payload}, f, indent=1, default=str)
    return path


def finish(prop: str, tier: str, level: str, results: list[Result], coverage: dict, assumptions: list[str], t0: float) -> int:
    """Print verdict lines, write evidence/<prop>.json, return the exit code."""
    viol = [r for r in results if r.status == VIOLATION]
    inconc = [r for r in results if r.status == INCONCLUSIVE]
    herr = [r for r in results if r.status == HARNESS_ERROR]
    held = [r for r in results if r.status == HELD]
    skipped = [r for r in results if r.status == SKIPPED]
    new_viol, known = [], []
    for r in viol:
        f = finding_for(prop, r.signature)
        (known if f else new_viol).append((r, f))
    seen = set()
    for r, f in known:
        if f["signature"] in seen:
            continue
        seen.add(f["signature"])
        print(f"KNOWN-FINDING: property={prop} {f['what']} [signature={f['signature']}]")
    for r, _ in new_viol:
        path = write_replay(prop, r.name, {"signature": r.signature, "detail": r.detail, "replay": r.replay})
        print(f"VIOLATION property={prop} replay={path}")
        print(f"  {r.name}: {r.detail}"[:2000])
    for r in inconc:
        print(f"INCONCLUSIVE property={prop} {r.name}: {r.detail}"[:600])
    for r in herr:
        print(f"HARNESS-ERROR property={prop} {r.name}: {r.detail}"[:2000])
    cov = dict(coverage)
    cov.setdefault("obligations", len(results) - len(skipped))
    cov.setdefault("discharged", len(held))
    cov["held"] = len(held)
    cov["violations_replayed"] = len(viol)
    cov["known_findings_reobserved"] = len(known)
    cov["inconclusive"] = len(inconc)
    cov["harness_errors"] = len(herr)
    cov["skipped_not_counted"] = len(skipped)
    cov["solver_seconds"] = round(sum(r.solver_s for r in results), 2)
    cov["solver_queries"] = sum(r.queries for r in results)
    if inconc:
        cov["inconclusive_list"] = [r.name for r in inconc][:50]
    ev = {
        "property_id": prop,
        "tier": tier,
        "seed": seed(),
        "level": level,
        "coverage": cov,
        "assumptions": assumptions,
        "wall_s": round(time.time() - t0, 2),
        "violations": len(new_viol),
    }
    os.makedirs(EVID, exist_ok=True)
    tmp = os.path.join(EVID, f".{prop}.json.tmp")
    with open(tmp, "w") as f:
        json.dump(ev, f, indent=1, default=str)
    os.replace(tmp, os.path.join(EVID, f"{prop}.json"))
    if new_viol:
        code = EXIT_VIOLATION
    elif herr:
        code = EXIT_HARNESS
    elif inconc:
        code = EXIT_INCONCLUSIVE
    else:
        code = EXIT_OK
    print(
        f"[{prop}/{tier}] obligations={cov['obligations']} held={len(held)} violations={len(new_viol)} known={len(known)} "
        f"inconclusive={len(inconc)} harness_errors={len(herr)} skipped={len(skipped)} solver_s={cov['solver_seconds']} "
        f"wall_s={ev['wall_s']} exit={code}"
    )
    sys.stdout.flush()
    return code


def match_only(only, *texts):
    """--only: a substring of, or a regular expression over, the obligation's name / tags"""
    import re

    if not only:
        return True
    joined = " ".join(str(t) for t in texts)
    if only in joined:
        return True
    try:
        return re.search(only, joined) is not None
    except re.error:
        return False
