"""C18.1: parquet filter push-down.  The real _DNF.extract_pq_filters / normalize / combine / to_list_tuple are run on
predicate trees over `col op const` atoms; z3 decides, for all cell values and null flags, whether the row filter that
Arrow applies (a comparison with null is null; a row is kept iff some conjunction is entirely true) keeps exactly the
rows that the pandas predicate keeps (NaN != c is True, every other comparison with NaN is False)."""
from __future__ import annotations

import itertools
import time

import z3

from .common import HELD, VIOLATION, INCONCLUSIVE, HARNESS_ERROR, SKIPPED, Result, WORK
from .proplogic import _shapes, _internal

OPS = ["<", "<=", ">", ">=", "==", "!="]


def _atoms():
    out = []
    for col in ("a", "b"):
        for op in OPS:
            for c in (1, 2):
                out.append((col, op, c))
    return out


def _cmp(op, x, c):
    return {"<": x < c, "<=": x <= c, ">": x > c, ">=": x >= c, "==": x == c, "!=": x != c}[op]


def pandas_atom(atom, vals, nulls):
    col, op, c = atom
    if op == "!=":
        return z3.Or(nulls[col], vals[col] != c)
    return z3.And(z3.Not(nulls[col]), _cmp(op, vals[col], c))


def arrow_atom_true(atom, vals, nulls):
    col, op, c = atom
    return z3.And(z3.Not(nulls[col]), _cmp(op, vals[col], c))


def trees(max_leaves, atoms):
    for n in range(1, max_leaves + 1):
        for shape in _shapes(n):
            k = _internal(shape)
            for ops in itertools.product("&|", repeat=k):
                for leaves in itertools.product(range(len(atoms)), repeat=n):
                    yield shape, ops, leaves


def _build(shape, ops, leaves, mk):
    it = iter(ops)

    def rec(s):
        if not isinstance(s, tuple):
            return mk(leaves[s])
        op = next(it)
        l, r = rec(s[0]), rec(s[1])
        return (l & r) if op == "&" else (l | r)

    return rec(shape)


def _formula(shape, ops, leaves, mk):
    it = iter(ops)

    def rec(s):
        if not isinstance(s, tuple):
            return mk(leaves[s])
        op = next(it)
        l, r = rec(s[0]), rec(s[1])
        return z3.And(l, r) if op == "&" else z3.Or(l, r)

    return rec(shape)


def run(tier):
    import pandas as pd
    import dask

    dask.config.set({"dataframe.convert-string": False})
    import dask_expr as dx
    from dask_expr.io.parquet import _DNF

    df = dx.from_pandas(pd.DataFrame({"a": [1.0], "b": [1.0]}), npartitions=1)
    full = _atoms()
    # a thinner atom set for bigger trees
    atoms_by_n = {1: full, 2: full, 3: [a for a in full if a[2] == 1 and a[1] in ("<", ">=", "==", "!=")]}
    vals = {"a": z3.Int("a"), "b": z3.Int("b")}
    nulls = {"a": z3.Bool("a_null"), "b": z3.Bool("b_null")}
    s = z3.Solver()
    t0 = time.time()
    n = pushed = 0
    bad = {}
    samples = []
    user_filters = [None, [("b", ">", 0)], [[("a", "<", 5)], [("b", "==", 1)]]]
    maxn = 2 if tier == "quick" else 3
    for nleaves in range(1, maxn + 1):
        atoms = atoms_by_n[nleaves]
        for shape in _shapes(nleaves):
            for ops in itertools.product("&|", repeat=_internal(shape)):
                for leaves in itertools.product(range(len(atoms)), repeat=nleaves):
                    pred = _build(shape, ops, leaves, lambda i: _mk_expr(df, atoms[i]))
                    n += 1
                    try:
                        dnf = _DNF.extract_pq_filters(df.expr, pred.expr)
                    except Exception as e:
                        bad.setdefault("raises", []).append((str(pred.expr), f"extract_pq_filters raised {type(e).__name__}: {e}", None, None))
                        continue
                    if dnf._filters is None:
                        continue  # not pushed: the filter stays in memory
                    pushed += 1
                    want = _formula(shape, ops, leaves, lambda i: pandas_atom(atoms[i], vals, nulls))
                    for uf in (user_filters if nleaves <= 2 else user_filters[:1]):
                        lst = dnf.combine(uf).to_list_tuple()
                        got = z3.Or(*[z3.And(*[arrow_atom_true(t, vals, nulls) for t in conj]) for conj in lst])
                        user = z3.BoolVal(True)
                        if uf is not None:
                            ul = _DNF(uf).to_list_tuple()
                            user = z3.Or(*[z3.And(*[arrow_atom_true(t, vals, nulls) for t in conj]) for conj in ul])
                        s.push()
                        s.add(got != z3.And(want, user))
                        r = str(s.check())
                        if r == "sat":
                            m = s.model()
                            row = {c: (None if z3.is_true(m.eval(nulls[c], model_completion=True)) else m.eval(vals[c], model_completion=True).as_long()) for c in ("a", "b")}
                            key = tuple(sorted({atoms[i][1] for i in leaves if atoms[i][1] == "!="})) or ("other",)
                            bad.setdefault(key, []).append((str(pred.expr), f"pushed filter {lst} differs from the pandas predicate on row {row}", row, (shape, ops, [atoms[i] for i in leaves], uf)))
                        elif r != "unsat":
                            bad.setdefault("unknown", []).append((str(pred.expr), "solver unknown", None, None))
                        s.pop()
                    if len(samples) < 4:
                        samples.append({"predicate": str(pred.expr), "pushed_filters": str(dnf.to_list_tuple())})
    dt = time.time() - t0
    extra = {"bounds": f"all And/Or trees with <= {maxn} leaves over atoms col(a|b) op(<,<=,>,>=,==,!=) const(1|2), combined with 3 user filter lists; cell values and null flags symbolic",
             "functions": ["dask_expr.io.parquet._DNF.extract_pq_filters", "_DNF.normalize", "_DNF.combine", "_DNF.to_list_tuple"], "trees": n, "pushed": pushed, "samples": samples}
    results = []
    for key, items in bad.items():
        pred, msg, row, spec = items[0]
        sig = "pq-filter:" + ",".join(key) if isinstance(key, tuple) else f"pq-filter:{key}"
        if row is None or spec is None:
            results.append(Result(f"pq.filters[{key}]", INCONCLUSIVE if key == "unknown" else VIOLATION, sig, msg, None, dt, n, extra))
            continue
        ok, rmsg = replay(spec, row)
        st = VIOLATION if ok else HARNESS_ERROR
        results.append(Result(f"pq.filters[{','.join(key)}]", st, sig, f"{len(items)} predicate/filter combinations, e.g. {pred}: {msg}; replay: {rmsg}", {"engine": "S", "kind": "pq-filter", "row": row}, dt, n, extra))
    if not results:
        results.append(Result("pq.filters", HELD, "", f"{pushed} pushed predicates of {n} trees keep exactly the pandas rows (unsat), nulls included", None, dt, pushed, extra))
    return results


def _mk_expr(df, atom):
    col, op, c = atom
    x = df[col]
    return {"<": x < c, "<=": x <= c, ">": x > c, ">=": x >= c, "==": x == c, "!=": x != c}[op]


def replay(spec, row):
    """write one row (plus a neutral row) to parquet, read it with the arrow filesystem reader, apply the predicate"""
    import os
    import shutil

    import numpy as np
    import pandas as pd

    import dask_expr as dx

    shape, ops, atoms, uf = spec
    path = os.path.join(WORK, "pq", "replay_filter")
    shutil.rmtree(path, ignore_errors=True)
    os.makedirs(os.path.dirname(path), exist_ok=True)
    pdf = pd.DataFrame({c: [np.nan if row[c] is None else float(row[c])] for c in ("a", "b")})
    try:
        dx.from_pandas(pdf, npartitions=1).to_parquet(path)
        df = dx.read_parquet(path, filesystem="arrow", filters=uf)
        pred = _build(shape, ops, list(range(len(atoms))), lambda i: _mk_expr(df, atoms[i]))
        got = len(df[pred].compute())
        mem = pdf
        if uf is not None:
            # the user filter is part of the read in both worlds
            full = dx.read_parquet(path, filesystem="arrow", filters=uf).compute()
            mem = full
        ppred = _build(shape, ops, list(range(len(atoms))), lambda i: _mk_expr(mem, atoms[i]))
        want = len(mem[ppred])
    except Exception as e:
        return False, f"replay crashed: {type(e).__name__}: {e}"
    finally:
        shutil.rmtree(path, ignore_errors=True)
    return (got != want), f"reader with pushed filter returned {got} row(s), filtering in memory returns {want}"
