"""C17: cutting a query at an intermediate collection (persist / delayed round trip / legacy round trip) and continuing
on the re-imported collection gives the same result, schema and divisions."""
from __future__ import annotations

import time

import z3

from .common import HELD, VIOLATION, INCONCLUSIVE, HARNESS_ERROR, SKIPPED, Result
from . import prun
from .prun import Program, Src

LCOLS = {"a": "i", "b": "f", "c": "i"}
RCOLS = {"a": "i", "e": "i"}

HEADS = [
    ("L", "source", True),
    ("(L + 1)", "elemwise", True),
    ("L[L.a > 1]", "filter", True),
    ("L[['a', 'c']]", "projection", True),
    ("L.a", "series", True),
    ("(L.a + L.c).rename('s')", "series-binop", True),
    ("L.assign(z=L.a * 2)[['z', 'b']]", "assign", True),
    ("L.shuffle('a')", "unknown-divisions", False),
    ("L.reset_index()", "reset_index", True),
    ("L.partitions[[1, 0]]", "partition-filtered", True),
    ("L.partitions[1]", "partition-single", True),
    ("L.partitions[[1, 1]]", "partition-repeated", True),
    ("L.repartition(npartitions=1).partitions[[0, 0]]", "partition-repeated-single", True),
    ("L.merge(R, on='a')", "merge", False),
    ("L.groupby('a').c.sum()", "groupby", False),
    ("L.repartition(npartitions=1)", "repartition", True),
    ("L.fillna(0).abs()[L.a > 0]" if False else "L.fillna(0).abs()", "fused-chain", True),
    ("L.index", "index", True),
    ("L.a.sum()", "scalar", True),
    ("(L.a.sum() + 1) * 2", "scalar-expr", True),
    ("L.dropna(subset=['b'])", "dropna", True),
    ("dx.concat([L, L])", "concat", True),
    ("dx.concat([L[['a', 'c']], R])", "concat-other", True),
    ("L.set_index('a', divisions=[-100, 0, 100])", "set_index", False),
    ("L.cumsum()", "cumulative", True),
    ("L.shift(1)", "window", True),
    ("L.loc[1:2]", "loc", True),
    ("L.head(3, npartitions=-1, compute=False)", "head", True),
    ("L.tail(2, compute=False)", "tail", True),
    ("L.drop_duplicates(subset=['a'])", "dedup", False),
    ("L.nlargest(2, 'a')", "nlargest", False),
    ("L.a.value_counts()", "value_counts", False),
    ("L.repartition(npartitions=3)", "repartition-more", True),
    ("L.merge(R, on='a', how='left', broadcast=True)", "broadcast-join", False),
    ("L.sort_values('a', npartitions=1)" if False else "L.a.unique()", "unique", False),
]

RESTS = [
    ("Z", "identity"),
    ("Z.sum()", "sum"),
    ("Z + 1", "add"),
    ("Z[Z > 0]" , "filter-series"),
    ("Z[Z.a > 0]", "filter"),
    ("Z.a.sum()", "col-sum"),
    ("Z.head(2, compute=False)", "head"),
    ("Z.repartition(npartitions=1)", "repartition"),
    ("Z.merge(R, on='a')", "merge"),
    # partition selections on the re-imported collection (reordered / repeated selections have no sorted index ranges)
    ("Z.partitions[[1, 0]]", "partitions-reorder"),
    ("Z.partitions[[1, 1]]", "partitions-repeat"),
    ("Z.partitions[[0]] + 1", "partitions-first"),
    ("Z.tail(1, compute=False)", "tail"),
    # operators that read the partition structure of their input (positions, neighbours, divisions) after a cut / a selection
    ("Z.cumsum()", "cumsum"),
    ("Z.shift(1)", "shift"),
    ("Z.merge(R, on='a', how='left', broadcast=True)", "merge-broadcast"),
    ("Z.shuffle('a').partitions[[0]]", "shuffle-select"),
    ("Z.size", "size"),
    ("Z.count()", "count"),
    ("Z.to_frame()", "to_frame"),
    ("(Z * 2).max()", "mul-max"),
    # the re-imported / optimised piece used together with the original source (broadcast or partition-wise)
    ("L.c + Z", "mix-add"),
    ("(L.c + Z) * 3", "mix-add-mul"),
    ("L[L.c > Z]", "mix-filter"),
]

MIX_HEADS = ("scalar", "scalar-expr", "series", "series-binop")  # series + frame aligns the series with the columns: not a sensible continuation


def configs(tier, cuts=("persist", "delayed", "legacy", "inplace")):
    out = []
    layouts = [(4, 2)] if tier == "quick" else [(4, 2), (5, 3), (3, 1)]
    for nrows, nparts in layouts:
        for htext, htag, hordered in HEADS:
            for rtext, rtag in RESTS:
                if rtag.startswith("mix-") and (htag not in MIX_HEADS or (rtag == "mix-filter" and not htag.startswith("scalar"))):
                    continue
                if htag == "set_index" and rtag in ("head", "tail"):
                    # head() reads the first partition(s) only (documented); an optimised / re-imported set_index result keeps its
                    # possibly empty first partition, while the uncut query turns head-of-set_index into a global n-smallest
                    continue
                for cut in cuts:
                    if cut == "inplace" and (rtag in ("merge", "to_frame") or htag in ("index", "scalar", "scalar-expr")):
                        continue
                    out.append(dict(head=htext, htag=htag, rest=rtext, rtag=rtag, cut=cut, nrows=nrows, nparts=nparts, ordered=hordered and rtag in ("identity", "add", "filter", "filter-series", "head", "tail", "partitions-reorder", "partitions-repeat", "partitions-first", "cumsum", "shift", "to_frame", "mix-add", "mix-add-mul", "mix-filter")))
    return out


def _name(c):
    return f"{c['rest'].replace('Z', '<' + c['head'] + '>')} cut={c['cut']} @ {c['nrows']}r/{c['nparts']}"


def check(c) -> list[Result]:
    prun.init()
    from symdf.core import Unsupported, StructuralError
    from symdf.interp import GraphError, run_graph
    from symdf import conc
    from dask_expr._expr import optimize
    import dask_expr as dx
    import pandas as pd

    name = _name(c)
    srcs = [Src("L", c["nrows"], LCOLS, c["nparts"]), Src("R", 3, RCOLS, 1)]
    prog = Program(c["rest"], srcs, ordered=c["ordered"], family="F17", note=f"{c['htag']}/{c['rtag']}/{c['cut']}", env_globals={"dx": dx})
    env, frames = prun.make_env(prog)

    def head_of(colls):
        head = eval(c["head"], {"dx": dx}, dict(colls))
        if c["cut"] == "inplace":
            # the collection is materialised through the collection protocol once (an earlier dask.persist(head) / head.dask),
            # then modified in place; the cut below goes through the same protocol again
            head.__dask_graph__()
            head.__dask_keys__()
            if getattr(head, "ndim", 0) == 2 and "a" in list(head.columns):
                head["w"] = head["a"] * 10
            elif getattr(head, "ndim", 0) == 2:
                head.columns = [f"{x}_" for x in head.columns]
            elif getattr(head, "ndim", 0) == 1:
                head.name = "renamed"
            else:
                raise NotImplementedError("no in-place operation for this node kind")
        return head

    def reimport(head, symbolic):
        """-> re-imported collection; for persist in symbolic mode the partition values are computed symbolically"""
        if c["cut"] == "persist":
            opt = head.optimize()
            rebuild, args = opt.__dask_postpersist__()
            keys = opt.__dask_keys__()
            if symbolic:
                parts, it = run_graph(optimize(head.expr).lower_completely(), env)
            else:
                parts = prun.concrete_parts(optimize(head.expr))
            if len(parts) != len(keys):
                raise StructuralError(f"persist: {len(parts)} values for {len(keys)} keys")
            return rebuild(dict(zip(keys, parts)), *args)
        if c["cut"] == "optimize":
            # C19: continue on an already optimised (lowered, fused) collection; the whole query is optimised again later
            return head.optimize()
        if c["cut"] == "optimize-nofuse":
            return head.optimize(fuse=False)
        if c["cut"] == "inplace":
            from dask.core import flatten
            from dask.local import get_sync

            rebuild, args = head.__dask_postpersist__()
            keys = list(flatten(head.__dask_keys__()))
            if symbolic:
                parts, it = run_graph(head, env)
            else:
                parts = list(get_sync(dict(head.__dask_graph__()), keys))
            if len(parts) != len(keys):
                raise StructuralError(f"persist: {len(parts)} values for {len(keys)} keys")
            return rebuild(dict(zip(keys, parts)), *args)
        if c["cut"] == "delayed":
            dels = head.to_delayed()
            divs = head.divisions if head.known_divisions else None
            return dx.from_delayed(dels, meta=head._meta, divisions=divs, verify_meta=False)
        if c["cut"] == "legacy":
            ddf = head.to_legacy_dataframe()
            return dx.from_legacy_dataframe(ddf)
        raise ValueError(c["cut"])

    def both(colls, symbolic):
        head = head_of(colls)
        z0 = head
        z1 = reimport(head, symbolic)
        q0 = eval(c["rest"], {"dx": dx}, dict(colls, Z=z0))
        q1 = eval(c["rest"], {"dx": dx}, dict(colls, Z=z1))
        return head, z1, q0, q1

    def replay(tables):
        fr, present = prun._frames_of(tables)
        try:
            colls = prun.make_collections(prog, fr, present)
            head, z1, q0, q1 = both(colls, False)
            a = prun.concrete(optimize(q0.expr))
        except Exception as e:
            return None, f"uncut query fails concretely: {type(e).__name__}: {str(e)[:150]}"
        try:
            b = prun.concrete(optimize(q1.expr))
        except Exception as e:
            return True, f"cut query raises {type(e).__name__}: {str(e)[:200]} while the uncut query computes"
        same, msg = conc.same_pandas(a, b, c["ordered"], True)
        return (not same), msg

    payload = {"engine": "P", "kind": "cut", "config": c}
    try:
        colls = prun.make_collections(prog, frames)
        head = head_of(colls)
        q0 = eval(c["rest"], {"dx": dx}, dict(colls, Z=head))
        a_plan = optimize(q0.expr)
    except Exception as e:
        return [Result(name, SKIPPED, "", f"uncut query does not build: {type(e).__name__}: {str(e)[:160]}")]
    if not hasattr(head, "to_delayed") and c["cut"] != "persist":
        return [Result(name, SKIPPED, "", "cut kind not applicable to this node kind")]
    try:
        z1 = reimport(head, True)
        q1 = eval(c["rest"], {"dx": dx}, dict(colls, Z=z1))
        b_plan = optimize(q1.expr)
    except Unsupported as e:
        return [Result(name, SKIPPED, "", f"unsupported while rebuilding the cut: {e}", extra={"unsupported": str(e)})]
    except (AttributeError, NotImplementedError, TypeError) as e:
        # e.g. scalars have no to_delayed/legacy form: not a cut point for that kind
        differs, msg = replay(conc.tables_from_model(env, None, 1))
        if differs:
            return [Result(name, VIOLATION, name, f"cut fails: {type(e).__name__}: {str(e)[:200]}; replay: {msg}", payload)]
        return [Result(name, SKIPPED, "", f"cut not applicable: {type(e).__name__}: {str(e)[:120]}")]
    except Exception as e:
        differs, msg = replay(conc.tables_from_model(env, None, 1))
        st = VIOLATION if differs else (SKIPPED if differs is None else HARNESS_ERROR)
        return [Result(name, st, name, f"cut fails: {type(e).__name__}: {str(e)[:200]}; replay: {msg}", payload)]
    # static: schema and divisions
    from .prun import _labels_of_meta

    try:
        if _labels_of_meta(q0._meta)[:2] != _labels_of_meta(q1._meta)[:2]:
            return [Result(name, VIOLATION, name, f"schema differs: {_labels_of_meta(q0._meta)} vs {_labels_of_meta(q1._meta)}", payload)]
        if c["cut"] in ("persist", "legacy", "inplace", "optimize", "optimize-nofuse") or head.known_divisions:
            if tuple(q0.divisions) != tuple(q1.divisions):
                return [Result(name, VIOLATION, name, f"divisions differ: {q0.divisions} vs {q1.divisions}", payload)]
        # the optimised plans: known divisions are sorted (their values may legitimately be looser bounds than the logical ones)
        da, db = tuple(a_plan.divisions), tuple(b_plan.divisions)
        for which, d in (("uncut", da), ("cut", db)):
            if all(x is not None for x in d) and any(x > y for x, y in zip(d, d[1:])):
                return [Result(name, VIOLATION, name, f"the optimised {which} plan reports unsorted divisions {d} (logical: {tuple(q1.divisions if which == 'cut' else q0.divisions)})", payload)]
    except Exception as e:
        return [Result(name, SKIPPED, "", f"static comparison failed: {type(e).__name__}: {e}")]
    try:
        a_paths, a_it = prun.symexec(a_plan, env)
    except Unsupported as e:
        return [Result(name, SKIPPED, "", f"unsupported in uncut plan: {e}", extra={"unsupported": str(e)})]
    except (StructuralError, GraphError) as e:
        return [Result(name, SKIPPED, "", f"uncut plan fails structurally: {e}")]
    try:
        b_paths, b_it = prun.symexec(b_plan, env)
    except Unsupported as e:
        differs, msg = replay(conc.tables_from_model(env, None, 1))
        if differs and "raises" in msg:
            return [Result(name, VIOLATION, name, f"cut plan fails for every input ({e}); replay: {msg}", payload)]
        return [Result(name, SKIPPED, "", f"unsupported in cut plan: {e}", extra={"unsupported": str(e)})]
    except (StructuralError, GraphError) as e:
        differs, msg = replay(conc.tables_from_model(env, None, 1))
        return [Result(name, VIOLATION if differs else HARNESS_ERROR, name, f"cut plan fails for every input: {e}; replay: {msg}", payload)]
    saved = prun.replay_stage
    try:
        prun.replay_stage = lambda prog_, tables, stage, ref_stage="unopt": replay(tables)  # noqa: E731
        r = prun._compare_paths(prog, env, name, name, c["cut"], a_paths, b_paths, time.time())
    finally:
        prun.replay_stage = saved
    r.extra["callables"] = sorted(set(a_it.calls) | set(b_it.calls))[:60] if a_it and b_it else []
    return [r]
