"""Engine K runner: CrossHair (per-path z3) on harnesses that call the real planner functions from /repo.

A harness is a function in kernels/k_*.py returning an int:
    0 = inputs assumed away (precondition of the property not met)
    1 = the real function was executed and every assertion of the harness held
    2 = the property is violated for these inputs
CrossHair is asked for `post: _ != 2` (the obligation) and, on an automatically generated twin, for `post: _ != 1`
(reachability witness: must be *refuted*, otherwise the harness is vacuous and counted inconclusive).
Only "Confirmed over all paths" counts as held.
"""
from __future__ import annotations

import importlib
import inspect
import os
import re
import subprocess
import sys
import time
from concurrent.futures import ThreadPoolExecutor

from .common import HELD, VIOLATION, INCONCLUSIVE, HARNESS_ERROR, Result, ROOT, WORK

PY = os.path.join(ROOT, ".venv/bin/python")


def _pre_lines(fn):
    doc = inspect.getdoc(fn) or ""
    return [l.strip() for l in doc.splitlines() if l.strip().startswith("pre:")]


def _sig_text(fn):
    sig = inspect.signature(fn)
    parts = []
    for p in sig.parameters.values():
        ann = p.annotation
        if isinstance(ann, str):
            a = ann
        elif getattr(ann, "__args__", None):
            a = str(ann).replace("typing.", "")
        else:
            a = getattr(ann, "__name__", None) or str(ann).replace("typing.", "")
        parts.append(f"{p.name}: {a}")
    return ", ".join(parts), ", ".join(sig.parameters)


def _gen_module(modname: str, fname: str, fn, kind: str) -> str:
    """Write .work/kgen/<kind>_<mod>_<fn>.py holding the contract wrapper; returns module name."""
    d = os.path.join(WORK, "kgen")
    os.makedirs(d, exist_ok=True)
    sig, call = _sig_text(fn)
    pres = "\n    ".join(_pre_lines(fn))
    post = "_ != 2" if kind == "ob" else "_ != 1"
    name = f"{kind}_{modname.replace('.', '_')}_{fname}"
    src = (
        "from typing import *\n"
        f"from {modname} import {fname} as _h\n\n"
        f"def {fname}({sig}) -> int:\n"
        f'    """\n    {pres}\n    post: {post}\n    """\n'
        f"    return _h({call})\n"
    )
    with open(os.path.join(d, name + ".py"), "w") as f:
        f.write(src)
    return name


_CALL_RE = re.compile(r"when calling (\w+)\((.*?)\)(?: \(which returns .*\))?\s*$")


def _crosshair(genmod: str, fname: str, timeout: float):
    env = dict(os.environ)
    env["PYTHONPATH"] = os.pathsep.join([os.path.join(WORK, "kgen"), ROOT, env.get("PYTHONPATH", "")])
    env["PYTHONHASHSEED"] = "0"
    cmd = [PY, "-m", "crosshair", "check", "--unblock=subprocess.Popen", "--report_all",
           "--per_condition_timeout", str(timeout), "--per_path_timeout", str(max(5.0, timeout / 4)), f"{genmod}.{fname}"]
    t0 = time.time()
    try:
        p = subprocess.run(cmd, env=env, cwd=ROOT, capture_output=True, text=True, timeout=timeout * 1.5 + 60)
        out = p.stdout + p.stderr
    except subprocess.TimeoutExpired as e:
        out = "TIMEOUT " + str(e)
    return out, time.time() - t0


def _classify(out: str):
    """-> ('confirmed'|'counterexample'|'unknown', text)"""
    lines = [l for l in out.splitlines() if l.strip()]
    for l in lines:
        if ": error:" in l:
            return "counterexample", l
    for l in lines:
        if "Confirmed over all paths" in l:
            return "confirmed", l
    return "unknown", (lines[-1] if lines else "no output")[:300]


def _concrete(modname: str, fname: str, line: str):
    """Re-run the harness (hence the real function) on CrossHair's concrete counterexample."""
    m = _CALL_RE.search(line)
    if not m:
        return None, None, "cannot parse counterexample: " + line[:200]
    mod = importlib.import_module(modname)
    ns = dict(vars(mod))
    ns.update({"inf": float("inf"), "nan": float("nan")})
    argtext = m.group(2)
    try:
        args, kwargs = eval(f"(lambda *a, **k: (a, k))({argtext})", ns)
        val = getattr(mod, fname)(*args, **kwargs)
        return val, (args, kwargs), argtext
    except Exception as e:  # the real function raised on concrete values: also a (harness-level) reproduction
        return ("raised", f"{type(e).__name__}: {e}", _raised_in(e)), None, argtext


def _raised_in(e):
    """'repo' when the innermost frame of the exception is dask-expr / library code, 'harness' when it is the harness itself"""
    import traceback

    frames = traceback.extract_tb(e.__traceback__)
    if not frames:
        return "harness"
    return "harness" if os.path.abspath(frames[-1].filename).startswith(os.path.join(ROOT, "")) else "repo"


def run_harness(h: dict, scale: float = 1.0) -> Result:
    modname, fname = h["module"], h["fn"]
    mod = importlib.import_module(modname)
    fn = getattr(mod, fname)
    timeout = h.get("timeout", 60) * scale
    name = f"{modname.split('.')[-1]}.{fname}"
    if h.get("kind") == "sweep":
        # exhaustive structural enumeration without a symbolic variable: run natively (stated as such in the evidence)
        t0 = time.time()
        try:
            val = fn(True)
        except Exception as e:
            val = ("raised", f"{type(e).__name__}: {e}")
        dt = time.time() - t0
        extra = {"bounds": h.get("bounds", ""), "functions": h.get("functions", []), "crosshair_s": round(dt, 1), "twin_s": 0.0, "kind": "exhaustive sweep, no solver"}
        if val == 1:
            return Result(name, HELD, "", "exhaustive structural sweep passed (no symbolic variable)", None, 0.0, 0, extra)
        return Result(name, VIOLATION, f"{name}:sweep", f"structural sweep failed: {val}", {"engine": "K", "module": modname, "fn": fname, "args": "True"}, 0.0, 0, extra)
    ob = _gen_module(modname, fname, fn, "ob")
    tw = _gen_module(modname, fname, fn, "tw")
    t0 = time.time()
    with ThreadPoolExecutor(2) as ex:
        fo = ex.submit(_crosshair, ob, fname, timeout)
        ft = ex.submit(_crosshair, tw, fname, min(timeout, 120))
        (out, so), (tout, st) = fo.result(), ft.result()
    kind, line = _classify(out)
    tkind, tline = _classify(tout)
    extra = {"bounds": h.get("bounds", ""), "functions": h.get("functions", []), "crosshair_s": round(so, 1), "twin_s": round(st, 1)}
    if kind == "counterexample":
        val, args, argtext = _concrete(modname, fname, line)
        sig = f"{name}:{h.get('region', 'any')}"
        if isinstance(val, tuple) and val[0] == "raised" and val[-1] == "harness":
            return Result(name, HARNESS_ERROR, sig, f"the harness itself raised on {fname}({argtext}): {val[1]}", None, so + st, 2, extra)
        if val == 2 or (isinstance(val, tuple) and val[0] == "raised"):
            api = h.get("api_replay")
            api_msg = ""
            if api and args is not None:
                try:
                    ok, api_msg = getattr(mod, api)(*args[0], **args[1])
                    ok = None if ok is None else bool(ok)
                except Exception as e:
                    ok, api_msg = None, f"api replay crashed: {type(e).__name__}: {e}"
                if ok is False:
                    return Result(name, HARNESS_ERROR, sig, f"counterexample {fname}({argtext}) does not reproduce through the public API ({api_msg}); harness precondition too weak", None, so + st, 2, extra)
            return Result(name, VIOLATION, sig, f"{fname}({argtext}) -> {val}; {api_msg} [{line.split('error:')[-1].strip()[:300]}]",
                          {"engine": "K", "module": modname, "fn": fname, "args": argtext}, so + st, 2, extra)
        return Result(name, HARNESS_ERROR, sig, f"CrossHair counterexample does not reproduce concretely: {line[:300]} -> {val}", None, so + st, 2, extra)
    if kind == "confirmed":
        if tkind != "counterexample":
            return Result(name, INCONCLUSIVE, "", f"obligation confirmed but reachability twin not refuted ({tline}) - vacuous?", None, so + st, 2, extra)
        return Result(name, HELD, "", "Confirmed over all paths; twin refuted", None, so + st, 2, extra)
    return Result(name, INCONCLUSIVE, "", f"CrossHair: {line}", None, so + st, 2, extra)


def run_all(harnesses: list[dict], jobs: int = 8, scale: float = 1.0) -> list[Result]:
    if not harnesses:
        return []
    with ThreadPoolExecutor(jobs) as ex:
        return list(ex.map(lambda h: run_harness(h, scale), harnesses))


def replay(payload: dict) -> int:
    val, _, argtext = _concrete(payload["module"], payload["fn"], f"when calling {payload['fn']}({payload['args']})")
    print(f"replay {payload['fn']}({argtext}) -> {val}")
    return 1 if (val == 2 or isinstance(val, tuple)) else 0
