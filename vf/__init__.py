import os as _os

if _os.environ.get("VERIF_COV"):  # development aid (tools/coverage_gaps.py): which planner lines do the checks execute at all
    import atexit as _atexit

    import coverage as _coverage

    _c = _coverage.Coverage(config_file=_os.environ["VERIF_COV"])
    _c.start()
    _atexit.register(lambda: (_c.stop(), _c.save()))
