"""C11: partitions[...] / to_delayed / head / tail commute with the computation (engine P)."""
from __future__ import annotations

import itertools
import time
import traceback

import z3

from .common import HELD, VIOLATION, INCONCLUSIVE, HARNESS_ERROR, SKIPPED, Result
from . import prun
from .prun import Program, Src, Parts

LCOLS = {"a": "i", "b": "f", "c": "i"}
RCOLS = {"a": "i", "e": "i"}

QUERIES = [
    ("X", "source"),
    ("(X + 1)", "elemwise"),
    ("X[X.a > 1]", "filter"),
    ("X.assign(z=X.a - X.a.sum())", "broadcast-scalar"),
    ("(X[['a', 'c']] * 2).c", "projection-series"),
    ("(X - X.min())", "broadcast-labelseries"),
    ("X.shuffle('a')", "shuffle"),
    ("X.shuffle('a', max_branch=2)", "shuffle-staged"),
    ("(X[X.c > 0].shuffle('a', max_branch=2) + 1)", "shuffle-staged-chain"),
    ("X.shuffle('a', npartitions=7, max_branch=2)", "shuffle-staged-more"),
    ("X.shuffle('a', npartitions=2, max_branch=2)", "shuffle-staged-fewer"),
    ("X.merge(R, on='a', broadcast=True)", "broadcast-join"),
    ("X.merge(R, on='a', how='left', broadcast=True)[['c', 'e']]", "broadcast-join-left"),
    ("X.fillna(0).abs().rename(columns={'a': 'x'})", "chain"),
    ("X.repartition(npartitions=2)", "repartition-fewer"),
    ("(X + 1).repartition(npartitions=7)", "repartition-more"),
    ("X.a.to_frame()", "to_frame"),
    ("X.index", "index"),
    # operations whose tasks look at neighbouring partitions or at the partition's position: selecting afterwards is not
    # the same as selecting the inputs first
    ("X.shift(1)", "window-shift"),
    ("X.a.diff()", "window-diff"),
    ("X.c.shift(-1)", "window-shift-back"),
    ("X.ffill()", "window-ffill"),
    ("X.b.bfill()", "window-bfill"),
    ("X.loc[1:3]", "loc-slice"),
    ("X.loc[2:]", "loc-slice-open"),
    ("X.cumsum()", "cumulative"),
    ("X.map_partitions(lambda d, partition_info=None: d + (partition_info['number'] if partition_info else 0), meta=X._meta)", "partition-info"),
    ("X.head(2, npartitions=-1, compute=False)", "head-all"),
    ("X.tail(1, compute=False)", "tail"),
]


def sources(tier):
    n = 5
    srcs = [
        ("pandas", Src("X", n, LCOLS, 4)),
        ("pandas3", Src("X", n, LCOLS, 3)),
        ("pandas1", Src("X", 3, LCOLS, 1)),  # a single partition is also what broadcasting looks for: repeated selections must still repeat
        ("array", Src("X", 6, {"a": "i", "c": "i", "d": "i"}, 3, how="array")),
        ("map", Src("X", n, LCOLS, 4, how="map", cuts=(0, 1, 3, 4, 5))),
        ("delayed", Src("X", n, LCOLS, 4, how="delayed", cuts=(0, 2, 2, 4, 5))),
        ("delayed-known", Src("X", n, LCOLS, 4, how="delayed", cuts=(0, 2, 3, 4, 5), divisions=(0, 10, 20, 30, 40))),
        ("graph", Src("X", n, LCOLS, 4, how="graph", cuts=(0, 1, 3, 4, 5))),
        # real parquet datasets (one file per partition, written under .work/pq): fsspec and arrow readers, the latter also with fused reads
        ("parquet", Src("X", n, LCOLS, 4, how="parquet", cuts=(0, 1, 3, 4, 5))),
        ("parquet-arrow", Src("X", n, LCOLS, 4, how="parquet-arrow", cuts=(0, 2, 3, 4, 5))),
    ]
    return srcs


def partition_lists(k, tier):
    singles = [[i] for i in range(k)]
    pairs = [list(p) for p in itertools.product(range(k), repeat=2)]
    triples = [list(p) for p in itertools.product(range(k), repeat=3)]
    if tier == "quick":
        pairs = [[0, 1], [1, 0], [k - 1, 0], [1, 1], [k - 2, k - 1]]
        triples = [[0, 1, 2], [2, 1, 0], [0, 0, k - 1], [k - 1, 1, k - 1]]
        if k >= 4:
            triples.append([3, 2, 1])
    out = singles + pairs + triples + [list(range(k))] + ([list(reversed(range(k)))] if k > 3 else [])
    seen, res = set(), []
    for P in out:
        if all(0 <= x < k for x in P) and tuple(P) not in seen:
            seen.add(tuple(P))
            res.append(P)
    return res


def _cfgs(tier):
    out = []
    for sname, src in sources(tier):
        for text, tag in QUERIES:
            if src.how == "array" and any(c in text for c in ("'b'", ".b", "fillna")):
                continue
            if src.how == "array" and "merge" in text:
                continue
            if sname == "pandas1" and tag not in ("source", "elemwise", "filter", "chain", "to_frame", "projection-series", "partition-info", "broadcast-scalar", "shuffle"):
                continue
            if tier == "quick" and sname in ("pandas3", "graph") and tag not in ("source", "elemwise", "shuffle-staged", "broadcast-join"):
                continue
            if sname.startswith("parquet") and tag not in ("source", "elemwise", "projection-series", "broadcast-scalar", "chain", "to_frame", "shuffle", "broadcast-join", "head-all", "tail", "filter"):
                continue
            k = src.npart if src.cuts is None else len(src.cuts) - 1
            if "npartitions=7" in text:
                k = 7
            if "npartitions=2" in text and "compute=False" not in text:
                k = 2
            if tag in ("head-all", "tail"):
                k = 1
            sels = [("partitions", P) for P in partition_lists(k, tier)]
            if k == 7:
                sels += [("partitions", P) for P in ([2, 4, 6], [5, 6, 1, 3], [6, 5, 4, 3, 2], [1, 3, 4, 6, 0])]
            sels += [("delayed", None)]
            rows = src.nrows
            for n in ((0, 1, 3, rows + 1) if tier == "quick" else range(0, rows + 2)):
                for kk in ((1, 2, -1) if tier == "quick" else list(range(1, k + 1)) + [-1]):
                    sels.append(("head", (n, kk)))
                sels.append(("tail", n))
            for kind, arg in sels:
                if tag in ("index",) and kind in ("head", "tail") and tier == "quick":
                    continue
                out.append((sname, src, text, tag, kind, arg))
    return out


def _io_fused(plan):
    from dask_expr.io.io import FusedIO

    from dask_expr._expr import Fused

    def walk(e):
        yield e
        for sub in (e.exprs if isinstance(e, Fused) else []):
            yield from walk(sub)
        for d in e.dependencies():
            yield from walk(d)

    return any(isinstance(e, FusedIO) for e in walk(plan))


def _name(cfg):
    sname, src, text, tag, kind, arg = cfg
    return f"{text} @ {sname} | {kind}({arg})"


def check(cfg) -> list[Result]:
    prun.init()
    from symdf.core import Unsupported, StructuralError
    from symdf.interp import GraphError, run_graph, Interp
    from symdf import conc, equiv
    from symdf.frame import sym_concat
    from dask_expr._expr import optimize
    import dask_expr as dx

    sname, src, text, tag, kind, arg = cfg
    name = _name(cfg)
    srcs = [src] + ([Src("R", 3, RCOLS, 2)] if "R" in text.replace("X", "") and "merge" in text else [])
    prog = Program(text, srcs, ordered=True, family="F11", note=tag, env_globals={"dx": dx})
    env, frames = prun.make_env(prog)
    ordered = not any(t in tag for t in ("shuffle", "join"))

    flatten_real = [False]

    def select(q):
        if kind == "partitions":
            return q.partitions[arg]
        if kind == "head":
            return q.head(arg[0], npartitions=arg[1], compute=False)
        if kind == "tail":
            return q.tail(arg, compute=False)
        return q

    def expected_parts(full):
        if kind == "partitions":
            return Parts([full[i] for i in arg])
        if kind == "head":
            n, kk = arg
            chosen = full if kk == -1 else full[:kk]
            cat = sym_concat(list(chosen)) if len(chosen) > 1 else chosen[0]
            return Parts([cat.head(n)])
        if kind == "tail":
            return Parts([full[-1].tail(arg)])
        return Parts(full)

    def real(tables):
        fr, present = prun._frames_of(tables)
        import pandas as pd

        try:
            q = prog.build({k_: v for k_, v in prun.make_collections(prog, fr, present).items()} | {"X": prun.make_collections(prog, fr, present)["X"]})
            fp = optimize(q.expr)
            if fp.npartitions != q.npartitions:
                fp = q.expr.lower_completely()  # see below: IO fusion changed the partitioning
            full = prun.concrete_parts(fp)
        except Exception as e:
            return None, f"unselected query fails: {type(e).__name__}: {e}"
        try:
            if kind == "delayed":
                import dask

                got = list(dask.compute(*q.to_delayed()))
            else:
                got = prun.concrete_parts(optimize(select(q).expr))
        except Exception as e:
            return True, f"selection raises {type(e).__name__}: {str(e)[:200]} although the query computes"
        if kind == "partitions":
            want = [full[i] for i in arg]
        elif kind == "head":
            n, kk = arg
            chosen = full if kk == -1 else full[:kk]
            want = [pd.concat(chosen).head(n) if isinstance(chosen[0], (pd.DataFrame, pd.Series)) else chosen[0][:n]]
            if isinstance(chosen[0], pd.Index):
                want = [chosen[0].append(list(chosen[1:]))[:n]]
        elif kind == "tail":
            want = [full[-1].tail(arg) if not isinstance(full[-1], pd.Index) else full[-1][-arg:] if arg else full[-1][:0]]
        else:
            want = full
        if flatten_real[0] and want and got:
            cat = lambda ps: [pd.concat(ps)] if isinstance(ps[0], (pd.DataFrame, pd.Series)) else [ps[0].append(list(ps[1:]))] if isinstance(ps[0], pd.Index) else ps  # noqa: E731
            want, got = cat(list(want)), cat(list(got))
        if len(want) != len(got):
            return True, f"{len(got)} partitions, expected {len(want)}"
        for i, (w, g) in enumerate(zip(want, got)):
            same, msg = conc.same_pandas(w, g, ordered, True)
            if not same:
                return True, f"partition {i}: {msg}"
        return False, "equal"

    try:
        q = prog.build(prun.make_collections(prog, frames))
        full_plan = optimize(q.expr, fuse=True)
        if full_plan.npartitions != q.npartitions:
            # the tuning step fused several files of a parquet dataset into one task: "partition i of the collection" is the partition the
            # collection reports (q.npartitions, q.divisions), so the expectation is taken from the plan without that step
            full_plan = q.expr.lower_completely()
    except Exception as e:
        return [Result(name, SKIPPED, "", f"query does not build: {type(e).__name__}: {str(e)[:150]}")]
    if (kind == "partitions" and arg and max(arg) >= q.npartitions) or (kind == "head" and arg[1] > q.npartitions):
        return [Result(name, SKIPPED, "", "selection outside the query's partition count", extra={"unsupported": "selection outside the query's partition count"})]
    try:
        full_paths, it0 = prun.symexec(full_plan, env, gather=False)
    except Unsupported as e:
        return [Result(name, SKIPPED, "", f"unsupported in the unselected query: {e}", extra={"unsupported": str(e)})]
    except (StructuralError, GraphError) as e:
        return [Result(name, SKIPPED, "", f"unselected query fails structurally: {e}")]
    payload = {"engine": "P", "kind": "select", "config": [sname, text, kind, arg]}
    try:
        if kind == "delayed":
            dels = q.to_delayed()
            import dask
            from dask.core import flatten

            def once():
                vals = []
                for d in dels:
                    g = dict(d.dask)
                    vals.append(Interp(g, env).get(d.key))
                return Parts(vals)

            from symdf import core as _core

            sel_paths = _core.explore(once, lambda: z3.Solver(), base=env.constraints)
        else:
            sel_plan = optimize(select(q).expr, fuse=True)
            sel_paths, it1 = prun.symexec(sel_plan, env, gather=False)
    except Unsupported as e:
        differs, msg = real(conc.tables_from_model(env, None, 1))
        if differs and "raises" in msg:
            return [Result(name, VIOLATION, name, f"selection fails for every input ({e}); replay: {msg}", payload)]
        return [Result(name, SKIPPED, "", f"unsupported in the selected plan: {e}", extra={"unsupported": str(e)})]
    except (StructuralError, GraphError, KeyError, IndexError, ValueError, AssertionError, TypeError) as e:
        differs, msg = real(conc.tables_from_model(env, None, 1))
        if differs is None:
            return [Result(name, SKIPPED, "", f"{msg}")]
        return [Result(name, VIOLATION if differs else HARNESS_ERROR, name, f"selection fails: {type(e).__name__}: {str(e)[:200]}; replay: {msg}", payload)]
    exp_paths = []
    for pc, v in full_paths:
        if isinstance(v, Exception):
            exp_paths.append((pc, v))
            continue
        try:
            exp_paths.append((pc, expected_parts(v)))
        except Unsupported as e:
            return [Result(name, SKIPPED, "", f"unsupported expectation: {e}", extra={"unsupported": str(e)})]
    if (kind == "delayed" and src.how.startswith("parquet")) or (kind != "delayed" and _io_fused(sel_plan)):
        if kind == "partitions" and len(set(arg)) != len(arg):
            return [Result(name, SKIPPED, "", "repeated partitions under a multi-file fused read: the row-sequence comparison needs distinct rows", extra={"unsupported": "repeated partitions under fused IO"})]
        # multi-file fused reads (FusedIO / FusedParquetIO, introduced by the tuning step) merge neighbouring partitions of the source by
        # design, so the optimised plan has fewer partitions than the collection reports: the rows are compared in order, not the layout
        def flat(paths):
            out = []
            for pc, v in paths:
                if not isinstance(v, Exception) and len(v) > 1:
                    v = Parts([sym_concat(list(v))])
                out.append((pc, v))
            return out

        try:
            exp_paths, sel_paths = flat(exp_paths), flat(sel_paths)
        except Unsupported as e:
            return [Result(name, SKIPPED, "", f"unsupported concatenation: {e}", extra={"unsupported": str(e)})]
        flatten_real[0] = True
    saved = prun.replay_stage
    prog.ordered = ordered
    try:
        prun.replay_stage = lambda prog_, tables, stage, ref_stage="unopt": real(tables)  # noqa: E731
        r = prun._compare_paths(prog, env, name, name, kind, exp_paths, sel_paths, time.time())
    finally:
        prun.replay_stage = saved
    if r.replay:
        r.replay.update(payload)
    return [r]
