"""C03.1: the predicate rewriting functions of dask_expr/_expr.py in isolation.

Enumerate And/Or/Invert trees over <= 4 atoms (real Expr objects), run the real rewrite_filters /
_get_predicate_components / _replace_common_or_components, translate input and output trees into propositional
formulas (one z3 Bool per atom _name) and let z3 decide `in <=> out` for all valuations at once."""
from __future__ import annotations

import itertools
import time

import z3

from .common import HELD, VIOLATION, INCONCLUSIVE, HARNESS_ERROR, Result


def _shapes(n):
    """all binary tree shapes with n leaves, as nested tuples of leaf indices 0..n-1 (in order)"""
    def build(lo, hi):
        if hi - lo == 1:
            return [lo]
        out = []
        for m in range(lo + 1, hi):
            for l in build(lo, m):
                for r in build(m, hi):
                    out.append((l, r))
        return out

    return build(0, n)


def _rgs(n, k):
    """restricted growth strings: atom assignments up to renaming, using at most k atoms"""
    def rec(prefix, mx):
        if len(prefix) == n:
            yield tuple(prefix)
            return
        for v in range(min(mx + 1, k - 1) + 1):
            yield from rec(prefix + [v], max(mx, v))

    yield from rec([0], 0)


def _internal(shape):
    return 0 if not isinstance(shape, tuple) else 1 + _internal(shape[0]) + _internal(shape[1])


def trees(max_leaves, with_neg_upto=3):
    for n in range(1, max_leaves + 1):
        for shape in _shapes(n):
            k = _internal(shape)
            for ops in itertools.product("&|", repeat=k):
                for atoms in _rgs(n, 4):
                    negs = itertools.product((False, True), repeat=n) if n <= with_neg_upto else [(False,) * n]
                    for neg in negs:
                        yield shape, ops, atoms, neg


def build_expr(shape, ops, atoms, neg, leaves):
    it = iter(ops)

    def rec(s):
        if not isinstance(s, tuple):
            e = leaves[atoms[s]]
            return ~e if neg[s] else e
        op = next(it)
        l = rec(s[0])
        r = rec(s[1])
        return (l & r) if op == "&" else (l | r)

    return rec(shape)


def to_formula(e, atom_names, cache):
    from dask_expr._expr import And, Or, Invert

    if isinstance(e, And):
        return z3.And(to_formula(e.left, atom_names, cache), to_formula(e.right, atom_names, cache))
    if isinstance(e, Or):
        return z3.Or(to_formula(e.left, atom_names, cache), to_formula(e.right, atom_names, cache))
    if isinstance(e, Invert):
        return z3.Not(to_formula(e.frame, atom_names, cache))
    if e._name not in atom_names:
        raise ValueError(f"rewritten predicate contains an unknown leaf {e!r}")
    return cache.setdefault(e._name, z3.Bool(atom_names[e._name]))


def run(tier):
    import pandas as pd
    import dask

    dask.config.set({"dataframe.convert-string": False})
    import dask_expr as dx
    from dask_expr._expr import rewrite_filters, Filter

    df = dx.from_pandas(pd.DataFrame({"a": [1], "b": [1], "c": [1], "d": [1]}), npartitions=1)
    leaves = [(df.a > 0).expr, (df.b > 0).expr, (df.c > 0).expr, (df.d > 0).expr]
    atom_names = {l._name: "ABCD"[i] for i, l in enumerate(leaves)}
    max_leaves = 4 if tier == "quick" else 5
    t0 = time.time()
    s = z3.Solver()
    n = changed = 0
    bad = []
    samples = []
    for shape, ops, atoms, neg in trees(max_leaves, 3 if tier == "quick" else 4):
        pred = build_expr(shape, ops, atoms, neg, leaves)
        try:
            out = rewrite_filters(pred)
        except Exception as e:
            bad.append((str(pred), f"rewrite_filters raised {type(e).__name__}: {e}", None, (shape, ops, atoms, neg)))
            continue
        n += 1
        if out._name == pred._name:
            continue
        changed += 1
        cache = {}
        try:
            fin, fout = to_formula(pred, atom_names, cache), to_formula(out, atom_names, cache)
        except ValueError as e:
            bad.append((str(pred), str(e), None, (shape, ops, atoms, neg)))
            continue
        s.push()
        s.add(fin != fout)
        r = str(s.check())
        if r == "sat":
            m = s.model()
            val = {v: bool(m.eval(z3.Bool(v), model_completion=True)) for v in "ABCD"}
            bad.append((str(pred), f"rewritten to {out} which differs under valuation {val}", val, (shape, ops, atoms, neg)))
        elif r != "unsat":
            bad.append((str(pred), "solver unknown", None, (shape, ops, atoms, neg)))
        s.pop()
        if len(samples) < 4:
            samples.append({"predicate": str(pred), "rewritten": str(out), "verdict": r})
    dt = time.time() - t0
    results = []
    if bad:
        for p, msg, val, spec in bad[:5]:
            ok = _replay(spec, val) if val is not None else True
            results.append(Result(f"prop.rewrite_filters:{p}"[:200], VIOLATION if ok else HARNESS_ERROR, f"rewrite_filters|{p}", msg,
                                  {"engine": "S", "predicate": p, "valuation": val}, dt, n))
    else:
        results.append(Result("prop.rewrite_filters", HELD, "", f"{changed} rewritten predicates out of {n} trees all equivalent (unsat)", None, dt, changed,
                              {"bounds": f"all And/Or trees with <= {max_leaves} leaves over <= 4 atoms up to renaming, negated leaves for small trees", "functions": [
                                  "dask_expr._expr.rewrite_filters", "_get_predicate_components", "_replace_common_or_components"], "trees": n, "rewritten": changed, "samples": samples}))
    return results


def _replay(spec, val):
    """one row whose atoms have the valuation: the real optimised filter keeps the row iff the original predicate is true"""
    import pandas as pd
    import dask_expr as dx

    pdf = pd.DataFrame({c: [1 if val["ABCD"[i]] else 0] for i, c in enumerate("abcd")})
    df = dx.from_pandas(pdf, npartitions=1)
    try:
        truth = bool(build_expr(*spec, [pdf.a > 0, pdf.b > 0, pdf.c > 0, pdf.d > 0]).iloc[0])
        pred = build_expr(*spec, [df.a > 0, df.b > 0, df.c > 0, df.d > 0])
        got = len(df[pred].compute())
        return truth != bool(got)
    except Exception:
        return True
