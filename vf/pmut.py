"""C05 obligations: tasks leave their arguments alone, and the result does not depend on the evaluation order.

Symbolic part (engine P): the real optimised task graph is executed over symbolic partitions with the interpreter
comparing the identity of every data argument before and after each task (`symdf.interp.fingerprint`; the symbolic containers
are mutable python objects whose `__setitem__` / `.columns =` / `.index.name =` work in place, like pandas), and a second
time in the reverse dependency-respecting order (arguments, list elements and output keys right to left, so that every pair of
consumers of a shared key runs in the other relative order); z3 decides that both orders give the same result for all data.
dask-expr's own task functions run for real on the symbolic objects, so a missing `copy` in one of them is a mutation event.

Concrete by-product (labelled as such): the same graph is executed by the real synchronous scheduler on the default tables with
every task callable wrapped so that its data arguments are hashed before and after the call - this covers the pandas / dask leaf
callables that the symbolic part assumes to be pure -, the collection is computed twice, and the user's pandas objects are hashed
before and after."""
from __future__ import annotations

import time

import numpy as np
import pandas as pd
import z3

from .common import HELD, VIOLATION, INCONCLUSIVE, HARNESS_ERROR, SKIPPED, Result
from . import prun
from .prun import Program, init, make_env, make_collections, plan, symexec, solve


# ---------------------------------------------------------------------------------------------- concrete instrumentation

def chash(x, depth=0):
    """content hash of the data parts of a concrete task argument (None for anything that is not data)"""
    if isinstance(x, pd.DataFrame):
        try:
            h = int(pd.util.hash_pandas_object(x, index=True).sum()) if len(x) else 0
        except TypeError:
            h = hash(x.to_string())
        return ("F", tuple(map(repr, x.columns)), tuple(map(repr, x.index.names)), tuple(map(str, x.dtypes)), x.shape, h)
    if isinstance(x, pd.Series):
        try:
            h = int(pd.util.hash_pandas_object(x, index=True).sum()) if len(x) else 0
        except TypeError:
            h = hash(x.to_string())
        return ("S", repr(x.name), tuple(map(repr, x.index.names)), str(x.dtype), x.shape, h)
    if isinstance(x, pd.Index):
        return ("I", tuple(map(repr, x.names)), tuple(map(repr, x.tolist())))
    if isinstance(x, np.ndarray):
        return ("A", x.shape, str(x.dtype), x.tobytes() if x.dtype != object else repr(x.tolist()))
    if isinstance(x, (list, tuple)) and depth < 4:
        return tuple(chash(i, depth + 1) for i in x)
    return None


class _Watched:
    """wraps a task callable: hashes the data arguments before and after the call"""

    def __init__(self, f, log):
        self.f, self.log = f, log

    def __call__(self, *a, **kw):
        before = [chash(x) for x in a] + [chash(v) for v in kw.values()]
        out = self.f(*a, **kw)
        after = [chash(x) for x in a] + [chash(v) for v in kw.values()]
        for i, (b, c) in enumerate(zip(before, after)):
            if b != c:
                self.log.append((getattr(self.f, "__qualname__", None) or getattr(self.f, "__name__", None) or repr(self.f), i))
        return out


def _istask(t):
    return type(t) is tuple and len(t) > 0 and callable(t[0])


def watch_graph(dsk, log):
    """the same graph with every task callable (nested tasks and the private sub-graphs of fused tasks included) wrapped"""
    from dask.utils import apply

    def w(t, depth=0):
        if depth > 60:
            return t
        if _istask(t):
            f, args = t[0], t[1:]
            if f is apply and args:
                return (apply, _Watched(args[0], log)) + tuple(w(a, depth + 1) for a in args[1:])
            return (_Watched(f, log),) + tuple(w(a, depth + 1) for a in args)
        if type(t) is list:
            return [w(x, depth + 1) for x in t]
        if type(t) is dict:
            return {k: w(v, depth + 1) for k, v in t.items()}
        return t

    return {k: w(v) for k, v in dsk.items()}


def real_mutations(lowered):
    """really execute the plan (synchronous scheduler) with watched callables -> (mutation events, result parts)"""
    import dask

    e = lowered.lower_completely()
    log = []
    dsk = watch_graph(dict(e.__dask_graph__()), log)
    parts = dask.get(dsk, e.__dask_keys__())
    return log, list(parts)


def default_tables(prog, env, frames, salt=0):
    """small concrete tables for the sources (values repeat so that groups and joins are non-trivial; one NaN per float column)"""
    rng = np.random.RandomState(17 + salt)
    out = {}
    for s in prog.srcs:
        tag = frames[s.name]
        data = {}
        for c, k in s.kinds.items():
            if k == "i":
                data[c] = rng.randint(0, 3, s.nrows).astype("int64")
            elif k == "f":
                v = rng.randint(0, 4, s.nrows).astype("float64")
                if s.nrows:
                    v[rng.randint(0, s.nrows)] = np.nan
                data[c] = v
            else:
                data[c] = rng.randint(0, 2, s.nrows).astype(bool)
        out[s.name] = pd.DataFrame(data, index=tag.index.copy())
    return out


# ---------------------------------------------------------------------------------------------- the obligations

def check_mutation(prog: Program) -> list[Result]:
    init()
    from symdf.core import Unsupported, StructuralError
    from symdf import equiv
    from symdf.interp import Interp, GraphError

    env, frames = make_env(prog)
    results = []
    t0 = time.time()
    try:
        q = prog.build(make_collections(prog, frames))
        lowered = plan(q.expr, "fused")
    except Exception as e:
        return [Result(prog.name, SKIPPED, "", f"program does not build/optimise: {type(e).__name__}: {str(e)[:200]}")]

    def replay_real():
        """-> (events, message) from the real execution of the same query on the default tables"""
        tabs = default_tables(prog, env, frames)
        q2 = prog.build(make_collections(prog, tabs))
        log, _ = real_mutations(plan(q2.expr, "fused"))
        return log

    # (a) symbolic: no task changes an argument
    name_a = prog.name + "|no-mutation"
    Interp.track_mutation, Interp.reverse = True, False
    try:
        fwd, it = symexec(lowered, env, gather=False)
        muts = list(it.mutations) if it is not None else []
        calls = sorted(set(it.calls)) if it is not None else []
    except (Unsupported, NotImplementedError) as e:
        Interp.track_mutation = False
        results.append(Result(name_a, SKIPPED, "", f"unsupported: {e}", extra={"unsupported": str(e)}))
        fwd = None
        muts, calls = [], []
    except (StructuralError, GraphError) as e:
        Interp.track_mutation = False
        return [Result(name_a, SKIPPED, "", f"plan fails structurally (C01 / C09 judge this): {str(e)[:200]}")]
    finally:
        Interp.track_mutation = False
    if fwd is not None:
        if muts:
            who = sorted(set(muts))
            try:
                real = replay_real()
            except Exception as e:
                real = None
                msg = f"{type(e).__name__}: {e}"
            if real:
                results.append(Result(name_a, VIOLATION, f"{prog.text}|mutation|{who[0][0]}", f"task callable {who[0][0]} modifies its argument #{who[0][1]} (symbolic execution of the real task function); the real execution on the default tables confirms: {sorted(set(real))[:3]}", replay={"engine": "P", "text": prog.text}))
            else:
                results.append(Result(name_a, HARNESS_ERROR, "", f"symbolic execution saw {who[:3]} modify an argument but the real execution does not ({real if real is not None else msg})"))
        else:
            results.append(Result(name_a, HELD, "", f"{len(it.calls) if it is not None else 0} task calls, no argument changed", extra={"callables": calls, "trivial": False}))

    # (b) symbolic: the reverse dependency-respecting order computes the same
    if fwd is not None:
        name_b = prog.name + "|order"
        Interp.reverse = True
        try:
            rev, _ = symexec(lowered, env, gather=False)
        except Exception as e:
            rev = e
        finally:
            Interp.reverse = False
        if isinstance(rev, Exception):
            results.append(Result(name_b, HARNESS_ERROR, "", f"reverse-order execution failed where the forward order works: {type(rev).__name__}: {str(rev)[:200]}"))
        else:
            total, nq, bad = 0.0, 0, None
            try:
                for pc1, v1 in fwd:
                    for pc2, v2 in rev:
                        e1, e2 = isinstance(v1, Exception), isinstance(v2, Exception)
                        joint = list(env.constraints) + [pc1, pc2]
                        if e1 or e2:
                            if e1 and e2 and type(v1) is type(v2):
                                continue
                            r, m, dt = solve(joint, z3.BoolVal(True))
                            total += dt
                            nq += 1
                            if r == "sat":
                                bad = ("one order raises", m)
                            elif r != "unsat":
                                bad = ("unknown", None)
                            continue
                        try:
                            if len(v1) != len(v2):
                                raise equiv.Mismatch(f"number of partitions differs: {len(v1)} vs {len(v2)}")
                            eq = z3.And(*[equiv.equal(x, y, True, prog.check_index) for x, y in zip(v1, v2)]) if len(v1) else z3.BoolVal(True)
                        except equiv.Mismatch as e:
                            r, m, dt = solve(joint, z3.BoolVal(True))
                            total += dt
                            nq += 1
                            if r == "sat":
                                bad = (str(e), m)
                            elif r != "unsat":
                                bad = ("unknown", None)
                            continue
                        r, m, dt = solve(joint, z3.Not(eq))
                        total += dt
                        nq += 1
                        if r == "sat":
                            bad = ("results differ", m)
                        elif r != "unsat":
                            bad = ("unknown", None)
                    if bad:
                        break
            except (Unsupported, NotImplementedError) as e:
                results.append(Result(name_b, SKIPPED, "", f"unsupported comparison: {e}"))
                bad = "skip"
            if bad == "skip":
                pass
            elif bad is None:
                results.append(Result(name_b, HELD, "", f"unsat ({nq} queries)", solver_s=total, queries=nq))
            elif bad[0] == "unknown":
                results.append(Result(name_b, INCONCLUSIVE, "", "solver returned unknown", solver_s=total, queries=nq))
            else:
                # confirm on the real code: a consumer-order dependence needs a mutated shared argument
                try:
                    real = replay_real()
                except Exception as e:
                    real = []
                if real:
                    results.append(Result(name_b, VIOLATION, f"{prog.text}|order", f"forward and reverse evaluation orders disagree ({bad[0]}); the real execution shows the modified argument: {sorted(set(real))[:3]}", replay={"engine": "P", "text": prog.text}, solver_s=total, queries=nq))
                else:
                    results.append(Result(name_b, HARNESS_ERROR, "", f"orders disagree symbolically ({bad[0]}) but no real task modifies an argument"))

    # (c) concrete by-product: leaf callables are pure on the default tables, repeated computes agree, the user's objects stay intact
    name_c = prog.name + "|concrete-purity"
    try:
        tabs = default_tables(prog, env, frames)
        keep = {k: v.copy(deep=True) for k, v in tabs.items()}
        q2 = prog.build(make_collections(prog, tabs))
        low2 = plan(q2.expr, "fused")
        log1, parts1 = real_mutations(low2)
        log2, parts2 = real_mutations(low2)
    except Exception as e:
        results.append(Result(name_c, SKIPPED, "", f"real execution refuses the default tables: {type(e).__name__}: {str(e)[:150]}"))
        return results
    problems = []
    if log1 or log2:
        problems.append(f"task callable modifies an argument: {sorted(set(log1 + log2))[:3]}")
    if [chash(p) for p in parts1] != [chash(p) for p in parts2] and prog.ordered:
        problems.append("computing the same plan twice gives different partitions")
    for k in tabs:
        if chash(tabs[k]) != chash(keep[k]):
            problems.append(f"the user's source frame {k} was modified by the computation")
    if problems:
        results.append(Result(name_c, VIOLATION, f"{prog.text}|concrete-purity|{problems[0].split(':')[0]}", "; ".join(problems) + " (concrete by-product on the default tables)", replay={"engine": "P", "text": prog.text}))
    else:
        results.append(Result(name_c, HELD, "", "concrete by-product: no data argument changed, two computes agree, sources intact", extra={"trivial": True}))
    return results


def check_source_isolation(kind: str) -> list[Result]:
    """concrete by-product: the collection does not alias the user's object - changing the user's frame after the collection was
    built does not change what the collection computes, and computing does not change the user's frame"""
    init()
    import dask_expr as dx

    name = f"source-isolation({kind})"
    pdf = pd.DataFrame({"a": [3, 1, 2, 5, 4, 0], "b": [1.0, np.nan, 2.0, 0.0, 5.0, 7.0]}, index=pd.Index([0, 1, 2, 3, 4, 5], name="i"))
    try:
        if kind == "frame":
            c, user = dx.from_pandas(pdf, npartitions=3), pdf
        elif kind == "frame-unsorted":
            pdf = pdf.iloc[[3, 0, 5, 1, 4, 2]]
            c, user = dx.from_pandas(pdf, npartitions=2, sort=True), pdf
        elif kind == "frame-nosort":
            c, user = dx.from_pandas(pdf, npartitions=2, sort=False), pdf
        elif kind == "series":
            user = pdf["a"].copy()
            c = dx.from_pandas(user, npartitions=3)
        elif kind == "frame-1part":
            c, user = dx.from_pandas(pdf, npartitions=1), pdf
        elif kind in ("numpy-buffer", "numpy-buffer-series"):
            # the user's frame wraps a numpy array without copying it: writes to the array bypass pandas' copy-on-write
            buf = np.arange(12, dtype="float64").reshape(6, 2)
            user = pd.DataFrame(buf, columns=["a", "b"], copy=False)
            if kind.endswith("series"):
                sbuf = np.arange(6, dtype="float64")
                user = pd.Series(sbuf, name="a", copy=False)
                buf = sbuf
            c = dx.from_pandas(user, npartitions=2, sort=False)
            want = c.compute()
            before = chash(user)
            got1 = c.compute()
            if chash(user) != before:
                return [Result(name, VIOLATION, f"{name}|source-modified", "computing the collection modified the user's pandas object")]
            buf[...] = -1.0
            got2 = c.compute()
            got3 = (c + 1).compute() - 1
            for g in (got1, got2, got3):
                if not g.equals(want):
                    return [Result(name, VIOLATION, f"{name}|aliased", "the collection's result changed after the user wrote to the numpy buffer their pandas object wraps (the source shares memory with it)")]
            return [Result(name, HELD, "", "concrete by-product: results unchanged by later writes to the wrapped buffer", extra={"trivial": True})]
        else:
            raise ValueError(kind)
        want = c.compute()
        before = chash(user)
        got1 = c.compute()
        if chash(user) != before:
            return [Result(name, VIOLATION, f"{name}|source-modified", "computing the collection modified the user's pandas object")]
        # now the user goes on working with their object
        if isinstance(user, pd.DataFrame):
            user.iloc[0, 0] = 99
            user["zz"] = 1
            user.index.name = "changed"
        else:
            user.iloc[0] = 99
            user.name = "changed"
        got2 = c.compute()
        got3 = (c + 1).compute() - 1
        for g in (got1, got2, got3):
            if chash(g) != chash(want) and not g.equals(want):
                return [Result(name, VIOLATION, f"{name}|aliased", "the collection's result changed after the user modified their own pandas object (the source is not a private copy)")]
    except Exception as e:
        return [Result(name, HARNESS_ERROR, "", f"{type(e).__name__}: {e}")]
    return [Result(name, HELD, "", "concrete by-product: results unchanged by later edits of the user's object", extra={"trivial": True})]
