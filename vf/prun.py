"""Engine P runner: programs, symbolic execution of real plans, obligations, replay, translator validation."""
from __future__ import annotations

import multiprocessing as mp
import os
import time
import traceback
import warnings
from dataclasses import dataclass, field

import numpy as np
import pandas as pd
import z3

from .common import HELD, VIOLATION, INCONCLUSIVE, HARNESS_ERROR, SKIPPED, Result, seed

STAGES = ["simplified-logical", "tuned-logical", "physical", "simplified-physical", "fused"]
SOLVER_TIMEOUT_MS = int(os.environ.get("VERIF_Z3_TIMEOUT_MS", "60000"))


@dataclass
class Src:
    name: str
    nrows: int
    kinds: dict
    npart: int = 1
    how: str = "pandas"  # pandas | delayed | map | array | graph
    cuts: tuple | None = None  # row boundaries for delayed/map sources, e.g. (0, 2, 2, 5)
    divisions: tuple | None = None  # declared divisions (delayed/map): index labels become symbolic within them
    optional_rows: bool = False
    index_name: str | None = None
    sort: bool = True
    index: tuple | None = None  # concrete index labels


@dataclass
class Program:
    text: str  # python expression over the source names (the query)
    srcs: list
    ordered: bool = False
    check_index: bool = True
    family: str = ""
    note: str = ""
    env_globals: dict = field(default_factory=dict)
    known: tuple | None = None  # (finding signature, region(env, prog) -> z3 Bool): inputs of a listed known finding
    assume: object = None  # callable(env) -> list of z3 constraints: the user's own assertions (e.g. data inside set_index divisions)

    @property
    def name(self):
        lay = ",".join(f"{s.name}:{s.how}{s.nrows}r/{s.npart if s.cuts is None else s.cuts}" for s in self.srcs)
        return f"{self.text} @ {lay}"

    def build(self, colls: dict, overrides=None):
        g = {"np": np, "pd": pd}
        g.update(self.env_globals)
        g.update(overrides or {})
        return eval(self.text, g, dict(colls))


_INIT = False


def init():
    """process-wide setup (idempotent): config, patches"""
    global _INIT
    if _INIT:
        return
    _INIT = True
    warnings.filterwarnings("ignore")
    import dask

    dask.config.set({"dataframe.convert-string": False, "dataframe.shuffle.method": "tasks", "scheduler": "sync"})
    from symdf import models

    models.patch()


def make_collections(prog: Program, frames: dict, present: dict | None = None):
    """real dask-expr collections over the given pandas frames (tag frames or concrete tables)"""
    import dask_expr as dx
    from dask import delayed

    out = {}
    for s in prog.srcs:
        pdf = frames[s.name]
        if s.how == "pandas":
            out[s.name] = dx.from_pandas(pdf, npartitions=s.npart, sort=s.sort)
        elif s.how in ("delayed", "map", "graph"):
            cuts = s.cuts or tuple(int(round(i * s.nrows / s.npart)) for i in range(s.npart + 1))
            parts = [pdf.iloc[a:b] for a, b in zip(cuts, cuts[1:])]
            if present is not None and s.name in present:
                keep = present[s.name]
                parts = [p[np.array([keep[i] for i in range(a, b)], dtype=bool)] for p, (a, b) in zip(parts, zip(cuts, cuts[1:]))]
            meta = pdf.iloc[:0]
            if s.how == "delayed":
                out[s.name] = dx.from_delayed([delayed(p) for p in parts], meta=meta, divisions=s.divisions, verify_meta=False)
            elif s.how == "map":
                out[s.name] = dx.from_map(_identity, parts, meta=meta, divisions=s.divisions)
            else:
                layer = {(f"graphsrc-{s.name}", i): p for i, p in enumerate(parts)}
                divs = s.divisions or (None,) * (len(parts) + 1)
                out[s.name] = dx.from_graph(layer, meta, divs, list(layer), f"graphsrc{s.name}")
        elif s.how in ("parquet", "parquet-arrow"):
            # one real parquet file per partition under /verif/.work/pq (removed by the driver); the reader's tasks return the tagged
            # cells, which the interpreter turns into the symbolic cells of the source - sound as long as the reader itself does not
            # evaluate predicates on the (tag) values: plans with reader-side filters are refused in symexec()
            import tempfile

            base = os.path.join("/verif/.work", "pq")
            os.makedirs(base, exist_ok=True)
            d = tempfile.mkdtemp(prefix=f"{s.name}-", dir=base)
            cuts = s.cuts or tuple(int(round(i * s.nrows / s.npart)) for i in range(s.npart + 1))
            if isinstance(pdf.index, pd.RangeIndex):
                # a default RangeIndex is not stored in the files (the arrow reader numbers the rows of each read unit afresh,
                # so the labels would depend on how many files one task reads): the source gets a materialised integer index
                pdf = pdf.set_axis(pd.Index(list(pdf.index), dtype="int64", name=pdf.index.name))
            for i, (a, b) in enumerate(zip(cuts, cuts[1:])):
                part = pdf.iloc[a:b]
                if present is not None and s.name in present:
                    keep = present[s.name]
                    part = part[np.array([keep[r] for r in range(a, b)], dtype=bool)]
                part.to_parquet(os.path.join(d, f"part.{i}.parquet"))
            kw = {"filesystem": "arrow"} if s.how == "parquet-arrow" else {}
            out[s.name] = dx.read_parquet(d, calculate_divisions=s.divisions is not None, **kw)
        elif s.how == "array":
            out[s.name] = dx.from_array(pdf.values, chunksize=max(1, -(-s.nrows // s.npart)), columns=list(pdf.columns))
        else:
            raise ValueError(s.how)
    return out


def _identity(x):
    return x


def make_env(prog: Program):
    from symdf.interp import Env

    env = Env()
    frames = {}
    for s in prog.srcs:
        sym_index = None
        if s.divisions is not None and s.how in ("delayed", "map", "graph"):
            sym_index = True
        frames[s.name] = env.source(s.name, s.nrows, s.kinds, index=list(s.index) if s.index else None, index_name=s.index_name,
                                    optional_rows=s.optional_rows, sym_index=sym_index)
        if sym_index:
            _constrain_index(env, s)
    if prog.assume is not None:
        env.assume(*prog.assume(env))
    if "dropna=False" in prog.text or "dropna=False" in str(prog.note):
        # the missing group label is modelled as the label 2**40: source values stay below it (stated bound)
        for t in env.tags.values():
            v = t[4]
            env.assume(v < 2 ** 39, v > -(2 ** 39))
    return env, frames


def _constrain_index(env, s: Src):
    """symbolic index labels lie inside the declared divisions of their partition and are sorted inside it"""
    tag = env.sources[s.name]["frame"]
    cuts = s.cuts or tuple(int(round(i * s.nrows / s.npart)) for i in range(s.npart + 1))
    nparts = len(cuts) - 1
    for p, (a, b) in enumerate(zip(cuts, cuts[1:])):
        lo, hi = s.divisions[p], s.divisions[p + 1]
        prev = None
        for r in range(a, b):
            v = env.idx_tags[int(tag.index[r])][2]
            env.assume(v >= lo, (v <= hi) if p == nparts - 1 else (v < hi))
            if prev is not None:
                env.assume(prev <= v)
            prev = v


def plan(expr, stage):
    from dask_expr._expr import optimize_until

    if stage == "unopt":
        return expr.lower_completely()
    e = optimize_until(expr, stage)
    return e.lower_completely()


class Parts(list):
    """per-partition result (compared partition by partition, order-sensitively)"""


def symexec(lowered, env, paths=True, gather=True):
    """-> [(path condition, gathered value | Parts | Exception)], interpreter (for the executed-callables list)"""
    from symdf import core
    from symdf.equiv import gather as gather_
    from symdf.interp import run_graph

    holder = {}
    lowered = lowered.lower_completely()  # what FrameBase.__dask_graph__ does before materialising
    _refuse_reader_filters(lowered)

    def once():
        parts, it = run_graph(lowered, env)
        holder["it"] = it
        holder["parts"] = parts
        return gather_(parts) if gather else Parts(parts)

    def mk():
        s = z3.Solver()
        s.set("timeout", 10000)
        return s

    res = core.explore(once, mk, base=env.constraints)
    return res, holder.get("it")


def _refuse_reader_filters(lowered):
    """a predicate handed to the parquet reader is evaluated by Arrow on the stored values - for a symbolic source these are tags"""
    from symdf.core import Unsupported

    try:
        from dask_expr.io.parquet import ReadParquet
    except Exception:
        return
    from dask_expr._expr import Fused

    for e in lowered.walk():
        if isinstance(e, ReadParquet) and e.operand("filters"):
            raise Unsupported("filter pushed into the parquet reader (evaluated by Arrow on stored values; see C18 for the pushed expression)")
        for sub in (e.exprs if isinstance(e, Fused) else []):
            for x in sub.walk():
                if isinstance(x, ReadParquet) and x.operand("filters"):
                    raise Unsupported("filter pushed into the parquet reader (evaluated by Arrow on stored values; see C18 for the pushed expression)")


def concrete(lowered):
    """really execute a lowered plan with the synchronous scheduler -> pandas object / scalar"""
    import dask
    from dask.dataframe.core import _concat

    e = lowered.lower_completely()
    dsk = e.__dask_graph__()
    keys = e.__dask_keys__()
    parts = dask.get(dsk, keys)
    parts = list(parts)
    if len(parts) == 1 and not isinstance(parts[0], (pd.DataFrame, pd.Series, pd.Index)):
        return parts[0]
    return _concat(parts)


def solve(constraints, negated, timeout_ms=None):
    s = z3.Solver()
    s.set("timeout", timeout_ms or SOLVER_TIMEOUT_MS)
    s.add(*constraints)
    s.add(negated)
    t0 = time.time()
    r = str(s.check())
    dt = time.time() - t0
    return r, (s.model() if r == "sat" else None), dt


# ---------------------------------------------------------------------------------------------- stage equivalence

def _sig(prog, stage):
    return f"{prog.name}|{stage}"


def _frames_of(tables):
    return {k: v[0] for k, v in tables.items()}, {k: v[1] for k, v in tables.items()}


def replay_stage(prog: Program, tables, stage, ref_stage="unopt"):
    """real execution of both plans on concrete tables -> (differs: bool | None, message)"""
    frames, present = _frames_of(tables)
    try:
        q = prog.build(make_collections(prog, frames, present))
        ref = concrete(plan(q.expr, ref_stage))
    except Exception as e:
        return None, f"reference plan fails concretely: {type(e).__name__}: {e}"
    try:
        opt = concrete(plan(q.expr, stage))
    except Exception as e:
        return True, f"stage {stage} raises {type(e).__name__}: {str(e)[:200]} while the reference computes"
    from symdf.conc import same_pandas

    same, msg = same_pandas(ref, opt, prog.ordered, prog.check_index)
    return (not same), msg


def check_stage_equiv(prog: Program, stages=STAGES, validate=2) -> list[Result]:
    """C01-style obligations for one program: every stage's plan == the unoptimised lowered plan, for all data."""
    init()
    from symdf.core import Unsupported, StructuralError, Not as ZNot
    from symdf import equiv, conc
    from symdf.interp import GraphError

    results = []
    env, frames = make_env(prog)
    t_start = time.time()
    try:
        q = prog.build(make_collections(prog, frames))
        expr = q.expr
        ref_plan = plan(expr, "unopt")
    except Exception as e:
        return [Result(prog.name, SKIPPED, "", f"program does not build/lower unoptimised: {type(e).__name__}: {str(e)[:200]}")]
    try:
        ref_paths, ref_it = symexec(ref_plan, env)
    except Unsupported as e:
        # outside the model: the only obligation left is the crash oracle - no stage may raise on concrete tables where the
        # unoptimised plan computes (concrete by-product, no solver; equality of values is not judged)
        out = []
        tables = conc.tables_from_model(env, None, 1)
        for stage in stages:
            try:
                differs, msg = replay_stage(prog, tables, stage)
            except Exception:
                continue
            if differs is True and " raises " in msg:
                out.append(Result(f"{prog.name}|{stage}", VIOLATION, _sig(prog, stage), f"outside the model ({e}); crash oracle: {msg}",
                                  {"engine": "P", "family": prog.family, "program": prog.name, "stage": stage, "kind": "crash-oracle"}))
        return out or [Result(prog.name, SKIPPED, "", f"unsupported in reference plan: {e}", extra={"unsupported": str(e)})]
    except (StructuralError, GraphError) as e:
        return [Result(prog.name, SKIPPED, "", f"reference plan fails structurally: {e}")]
    except Exception as e:
        return [Result(prog.name, HARNESS_ERROR, "", f"interpreter crashed on reference plan: {type(e).__name__}: {e}\n{traceback.format_exc()[-1500:]}")]
    ref_ok = [(pc, v) for pc, v in ref_paths if not isinstance(v, Exception)]
    if not ref_ok:
        return [Result(prog.name, SKIPPED, "", f"reference raises on every path: {ref_paths[0][1]!r}")]
    # reachability twin
    r, _, dt = solve(env.constraints, z3.Or(*[z3.And(pc, equiv.nonempty(v)) for pc, v in ref_ok]), 20000)
    if r != "sat":
        results.append(Result(prog.name + "|twin", INCONCLUSIVE if r == "unknown" else SKIPPED, "", f"reference result can never be non-empty ({r}): vacuous program", solver_s=dt, queries=1))
        if r == "unsat":
            return results
    # translator validation of the reference plan on concrete tables
    if validate:
        v = validate_plan(prog, env, ref_plan, ref_ok, validate)
        if v is not None:
            return [v]
    calls = set(ref_it.calls) if ref_it else set()
    for stage in stages:
        name = f"{prog.name}|{stage}"
        sig = _sig(prog, stage)
        t0 = time.time()
        try:
            st_plan = plan(expr, stage)
        except Exception as e:
            differs, msg = replay_stage(prog, conc.tables_from_model(env, None, 1), stage)
            st = VIOLATION if differs else HARNESS_ERROR
            results.append(Result(name, st, sig, f"optimiser fails: {type(e).__name__}: {str(e)[:300]} ; replay: {msg}",
                                  {"engine": "P", "family": prog.family, "program": prog.name, "stage": stage, "kind": "plan-error"}))
            continue
        if st_plan._name == ref_plan._name:
            results.append(Result(name, HELD, "", "plan identical to the unoptimised plan", extra={"trivial": True}))
            continue
        try:
            st_paths, st_it = symexec(st_plan, env)
            calls |= set(st_it.calls) if st_it else set()
        except Unsupported as e:
            # an unmodelled operation and a genuinely failing task look alike (TypeError/AttributeError on a stand-in):
            # the failure is data-independent, so one real execution decides which it is
            differs, msg = replay_stage(prog, conc.tables_from_model(env, None, 1), stage)
            if differs and "raises" in msg:
                results.append(Result(name, VIOLATION, sig, f"stage plan fails for every input ({e}); replay: {msg}",
                                      {"engine": "P", "family": prog.family, "program": prog.name, "stage": stage, "kind": "structural"}))
            else:
                results.append(Result(name, SKIPPED, "", f"unsupported in stage plan: {e}", extra={"unsupported": str(e)}))
            continue
        except (StructuralError, GraphError) as e:
            differs, msg = replay_stage(prog, conc.tables_from_model(env, None, 1), stage)
            st = VIOLATION if differs else HARNESS_ERROR
            results.append(Result(name, st, sig, f"stage plan fails for every input: {e} ; replay: {msg}",
                                  {"engine": "P", "family": prog.family, "program": prog.name, "stage": stage, "kind": "structural"}))
            continue
        except Exception as e:
            results.append(Result(name, HARNESS_ERROR, sig, f"interpreter crashed: {type(e).__name__}: {e}\n{traceback.format_exc()[-1500:]}"))
            continue
        results.append(_compare_paths(prog, env, name, sig, stage, ref_paths, st_paths, t0))
    for r_ in results:
        r_.extra.setdefault("callables", sorted(calls)[:60])
    return results


def _compare_paths(prog, env, name, sig, stage, ref_paths, st_paths, t0, ref_stage="unopt"):
    from symdf import equiv, conc
    from symdf.core import Unsupported

    total_s, nq = 0.0, 0
    for pca, va in ref_paths:
        for pcb, vb in st_paths:
            ea, eb = isinstance(va, Exception), isinstance(vb, Exception)
            if ea and eb:
                continue
            if ea or eb:
                if ea and not eb:
                    # the optimised plan computes where the reference refuses: allowed by C01 (never the other way round)
                    continue
                r, model, dt = solve(env.constraints, z3.And(pca, pcb))
                total_s += dt
                nq += 1
                if r == "unsat":
                    continue
                if r == "sat":
                    tables = conc.tables_from_model(env, model)
                    differs, msg = replay_stage(prog, tables, stage, ref_stage)
                    if not differs and type(vb).__name__ == "ModelledMisalignment":
                        return Result(name, SKIPPED, "", "alignment of duplicate labels is only modelled as a candidate failure; pandas coped on the replayed table", solver_s=total_s, queries=nq, extra={"unsupported": "duplicate-label alignment"})
                    return _verdict(prog, name, sig, stage, differs, f"stage raises {vb!r} on a path where the reference computes; replay: {msg}", tables, total_s, nq)
                return Result(name, INCONCLUSIVE, "", "solver unknown on exception path", solver_s=total_s, queries=nq)
            try:
                if isinstance(va, Parts) or isinstance(vb, Parts):
                    if len(va) != len(vb):
                        raise equiv.Mismatch(f"number of partitions differs: {len(va)} vs {len(vb)}")
                    eq = z3.And(*[equiv.equal(x, y, True, prog.check_index) for x, y in zip(va, vb)]) if len(va) else z3.BoolVal(True)
                else:
                    eq = equiv.equal(va, vb, prog.ordered, prog.check_index)
            except equiv.Mismatch as e:
                r, model, dt = solve(env.constraints, z3.And(pca, pcb))
                total_s += dt
                nq += 1
                if r == "unsat":
                    continue
                tables = conc.tables_from_model(env, model if r == "sat" else None, 1)
                differs, msg = replay_stage(prog, tables, stage, ref_stage)
                return _verdict(prog, name, sig, stage, differs, f"{e}; replay: {msg}", tables, total_s, nq)
            except Unsupported as e:
                return Result(name, SKIPPED, "", f"unsupported comparison: {e}", solver_s=total_s, queries=nq, extra={"unsupported": str(e)})
            r, model, dt = solve(env.constraints, z3.And(pca, pcb, z3.Not(eq)))
            total_s += dt
            nq += 1
            if r == "unsat":
                continue
            if r == "unknown":
                return Result(name, INCONCLUSIVE, "", "z3 unknown/timeout", solver_s=total_s, queries=nq)
            # the provenance-keyed comparison can be stricter than equality of the results: confirm with the
            # generic (provenance-free) encoding before believing the model
            if hasattr(va, "valid") and not isinstance(va, Parts):
                try:
                    if prog.ordered and not isinstance(getattr(va, "order", None), str) and not isinstance(getattr(vb, "order", None), str):
                        eq2 = equiv.equal_sequence(va, vb, prog.check_index)
                    else:
                        eq2 = equiv.equal_multiset(va, vb, prog.check_index)
                    r2, model2, dt2 = solve(env.constraints, z3.And(pca, pcb, z3.Not(eq2)))
                    total_s += dt2
                    nq += 1
                    if r2 == "unsat":
                        continue
                    if r2 == "sat":
                        model = model2
                    else:
                        return Result(name, INCONCLUSIVE, "", "z3 unknown on the generic encoding", solver_s=total_s, queries=nq)
                except equiv.Mismatch:
                    pass
                except Unsupported:
                    pass
            tables = conc.tables_from_model(env, model)
            differs, msg = replay_stage(prog, tables, stage, ref_stage)
            return _verdict(prog, name, sig, stage, differs, f"solver model: results differ; replay: {msg}", tables, total_s, nq)
    return Result(name, HELD, "", f"unsat ({nq} queries)", solver_s=total_s, queries=nq)


def _verdict(prog, name, sig, stage, differs, msg, tables, total_s, nq):
    payload = {"engine": "P", "family": prog.family, "program": prog.name, "text": prog.text, "stage": stage,
               "tables": {k: {"data": v[0].reset_index().to_dict("list"), "present": v[1]} for k, v in tables.items()}}
    if differs:
        return Result(name, VIOLATION, sig, msg, payload, total_s, nq)
    if differs is None:
        return Result(name, HARNESS_ERROR, sig, "counterexample could not be replayed: " + msg, payload, total_s, nq)
    return Result(name, HARNESS_ERROR, sig, "solver counterexample does not reproduce on the real code (model/encoding error): " + msg, payload, total_s, nq)


def _assumed(prog, env, ev):
    """does the concrete table satisfy the program's own assumption (the user's assertions, e.g. distinct sort keys)?"""
    try:
        return all(bool(ev(c)) for c in prog.assume(env))
    except Exception:
        return True


def validate_plan(prog, env, lowered, sym_paths, k):
    """translator validation: real execution vs symbolic result evaluated on k seeded concrete tables"""
    from symdf import conc

    rng = np.random.default_rng(seed() * 7919 + (hash(prog.text) & 0xFFFF))
    for _ in range(k):
        tables = conc.random_tables(env, rng)
        if any(env.sources[n].get("sym_index") for n in tables):
            return None  # symbolic index sources are validated by their own family code
        frames, present = _frames_of(tables)
        try:
            q = prog.build(make_collections(prog, frames, present))
            real = concrete(plan(q.expr, "unopt"))
        except Exception as e:
            continue  # data-dependent refusal of the real code on this table
        ev = conc.Evaluator(conc.assignment(env, tables))
        if prog.assume is not None and not _assumed(prog, env, ev):
            continue  # the random table lies outside the program's stated assumption
        got = None
        try:
            for pc, val in sym_paths:
                if ev(pc):
                    got = conc.eval_result(val, ev)
                    break
            else:
                continue
        except NotImplementedError:
            return None
        idx = getattr(val, "index_", None) or getattr(val, "idx", None)
        chk = prog.check_index and (idx is None or idx.defined)
        same, msg = conc.same_pandas(real, got, prog.ordered, chk, check_names=False)
        if not same:
            return Result(prog.name + "|validate", HARNESS_ERROR, "", f"model disagrees with real execution on a concrete table: {msg}; tables={ {k_: v[0].to_dict('list') for k_, v in tables.items()} }")
    return None


# ---------------------------------------------------------------------------------------------- parallel driver

_PROGS = []
_FN = None


def _work(i):
    try:
        return _FN(_PROGS[i])
    except Exception as e:
        return [Result(getattr(_PROGS[i], "name", str(i)), HARNESS_ERROR, "", f"worker crashed: {type(e).__name__}: {e}\n{traceback.format_exc()[-2000:]}")]


def run_programs(progs, fn, jobs=None):
    """fork-based pool: programs (closures) stay in the parent image, only indices and Results cross processes"""
    global _PROGS, _FN
    _PROGS, _FN = list(progs), fn
    jobs = jobs or min(16, os.cpu_count() or 4)
    if jobs == 1 or len(_PROGS) <= 1:
        out = [_work(i) for i in range(len(_PROGS))]
    else:
        ctx = mp.get_context("fork")
        with ctx.Pool(jobs, maxtasksperchild=50) as pool:
            out = pool.map(_work, range(len(_PROGS)), chunksize=1)
    return [r for rs in out for r in rs]


def replay(payload):
    init()
    prog = Program(payload["text"], [])
    print("replay of P counterexamples: re-run the check; the counterexample tables are in the replay file")
    return 0


# ---------------------------------------------------------------------------------------------- generic two-plan check

def concrete_parts(lowered):
    import dask

    e = lowered.lower_completely()
    return list(dask.get(e.__dask_graph__(), e.__dask_keys__()))


def check_two_plans(prog: Program, label, mk_a, mk_b, per_partition=False, extra_static=None, validate=0) -> list[Result]:
    """obligation: plan mk_b(expr) computes the same as plan mk_a(expr) for all data (optionally partition by
    partition, order-sensitively).  mk_*: logical Expr -> lowered Expr.  extra_static(a_plan, b_plan) -> str | None
    reports a data-independent difference (npartitions / divisions / meta)."""
    init()
    from symdf.core import Unsupported, StructuralError
    from symdf import equiv, conc
    from symdf.interp import GraphError

    env, frames = make_env(prog)
    name = f"{prog.name}|{label}"
    sig = _sig(prog, label)

    def replay(tables):
        fr, present = _frames_of(tables)
        try:
            q = prog.build(make_collections(prog, fr, present))
            a = concrete_parts(mk_a(q.expr)) if per_partition else concrete(mk_a(q.expr))
        except Exception as e:
            return None, f"reference plan fails concretely: {type(e).__name__}: {e}"
        try:
            b = concrete_parts(mk_b(q.expr)) if per_partition else concrete(mk_b(q.expr))
        except Exception as e:
            return True, f"{label} plan raises {type(e).__name__}: {str(e)[:200]} while the reference computes"
        if per_partition:
            if len(a) != len(b):
                return True, f"{len(a)} vs {len(b)} partitions"
            for i, (x, y) in enumerate(zip(a, b)):
                same, msg = conc.same_pandas(x, y, True, prog.check_index)
                if not same:
                    return True, f"partition {i}: {msg}"
            return False, "equal"
        same, msg = conc.same_pandas(a, b, prog.ordered, prog.check_index)
        return (not same), msg

    try:
        q = prog.build(make_collections(prog, frames))
        a_plan = mk_a(q.expr)
    except Exception as e:
        return [Result(name, SKIPPED, "", f"reference plan does not build: {type(e).__name__}: {str(e)[:200]}")]
    try:
        b_plan = mk_b(q.expr)
    except Exception as e:
        differs, msg = replay(conc.tables_from_model(env, None, 1))
        if differs is None:
            # the reference plan fails on the real code as well: not a difference between the two plans
            return [Result(name, SKIPPED, "", f"{label}: both plans fail ({type(e).__name__}); replay: {msg}")]
        return [Result(name, VIOLATION if differs else HARNESS_ERROR, sig, f"{label}: planning fails: {type(e).__name__}: {str(e)[:300]}; replay: {msg}",
                       {"engine": "P", "family": prog.family, "program": prog.name, "stage": label})]
    if extra_static is not None:
        msg = extra_static(a_plan, b_plan)
        if msg:
            return [Result(name, VIOLATION, sig, f"{label}: {msg}", {"engine": "P", "family": prog.family, "program": prog.name, "stage": label, "kind": "static"})]
    if a_plan._name == b_plan._name:
        return [Result(name, HELD, "", "plans identical", extra={"trivial": True})]
    try:
        a_paths, a_it = symexec(a_plan, env, gather=not per_partition)
    except Unsupported as e:
        return [Result(name, SKIPPED, "", f"unsupported in reference plan: {e}", extra={"unsupported": str(e)})]
    except (StructuralError, GraphError) as e:
        return [Result(name, SKIPPED, "", f"reference plan fails structurally: {e}")]
    try:
        b_paths, b_it = symexec(b_plan, env, gather=not per_partition)
    except Unsupported as e:
        differs, msg = replay(conc.tables_from_model(env, None, 1))
        if differs and "raises" in msg:
            return [Result(name, VIOLATION, sig, f"{label} plan fails for every input ({e}); replay: {msg}", {"engine": "P", "program": prog.name, "stage": label})]
        return [Result(name, SKIPPED, "", f"unsupported in {label} plan: {e}", extra={"unsupported": str(e)})]
    except (StructuralError, GraphError) as e:
        differs, msg = replay(conc.tables_from_model(env, None, 1))
        return [Result(name, VIOLATION if differs else HARNESS_ERROR, sig, f"{label} plan fails for every input: {e}; replay: {msg}",
                       {"engine": "P", "family": prog.family, "program": prog.name, "stage": label})]
    global replay_stage
    saved = replay_stage
    try:
        replay_stage = lambda prog_, tables, stage, ref_stage="unopt": replay(tables)  # noqa: E731
        r = _compare_paths(prog, env, name, sig, label, a_paths, b_paths, time.time())
    finally:
        replay_stage = saved
    r.extra["callables"] = sorted(set(a_it.calls) | set(b_it.calls))[:60] if a_it and b_it else []
    return [r]


def check_fusion(prog: Program) -> list[Result]:
    """C14: fused plan vs unfused optimised plan, partition by partition; npartitions / divisions / meta labels equal"""
    from dask_expr._expr import optimize

    def static(a, b):
        if a.npartitions != b.npartitions:
            return f"npartitions {a.npartitions} vs {b.npartitions}"
        if tuple(a.divisions) != tuple(b.divisions):
            return f"divisions {a.divisions} vs {b.divisions}"
        ma, mb = a._meta, b._meta
        if type(ma) is not type(mb):
            return f"meta kind {type(ma).__name__} vs {type(mb).__name__}"
        if hasattr(ma, "columns") and list(ma.columns) != list(mb.columns):
            return f"meta columns {list(ma.columns)} vs {list(mb.columns)}"
        if hasattr(ma, "name") and ma.name != mb.name:
            return f"meta name {ma.name!r} vs {mb.name!r}"
        if hasattr(ma, "dtypes") and hasattr(ma, "columns") and list(map(str, ma.dtypes)) != list(map(str, mb.dtypes)):
            return f"meta dtypes {list(ma.dtypes)} vs {list(mb.dtypes)}"
        return None

    return check_two_plans(prog, "fused-vs-unfused", lambda e: optimize(e, fuse=False), lambda e: optimize(e, fuse=True), per_partition=True, extra_static=static)


def check_idempotent(prog: Program) -> list[Result]:
    """C19-P: optimize(optimize(q)) computes what optimize(q) computes; repeated optimisation gives the same plan"""
    from dask_expr._expr import optimize

    def twice(e):
        return optimize(optimize(e, fuse=True), fuse=True)

    def static(a, b):
        return None

    out = []
    # termination: optimize() returns for the query as built, once and repeatedly (a non-converging rule pair is reported by
    # the library itself as RuntimeError "Optimizer does not converge"); data-independent, decided by running the real optimizer
    init()
    env0, frames0 = make_env(prog)
    try:
        q0 = prog.build(make_collections(prog, frames0))
    except Exception:
        q0 = None
    if q0 is not None:
        tname = f"{prog.name}|terminates"
        try:
            e1 = optimize(q0.expr, fuse=True)
            optimize(e1, fuse=True)
            optimize(q0.expr, fuse=False)
            out.append(Result(tname, HELD, "", "optimize() converges on the query and on its own output", extra={"trivial": True}))
        except RuntimeError as e:
            if "converge" in str(e):
                out.append(Result(tname, VIOLATION, _sig(prog, "terminates"), f"optimize() reports non-convergence: {str(e)[:300]}",
                                  {"engine": "P", "program": prog.name, "stage": "terminates"}))
        except Exception:
            pass
    out += check_two_plans(prog, "optimize-twice", lambda e: optimize(e, fuse=True), twice)
    out += check_two_plans(prog, "optimize-twice-nofuse", lambda e: optimize(e, fuse=False), lambda e: optimize(optimize(e, fuse=False), fuse=True))
    # determinism (concrete by-product): the same query optimised again yields the same plan name
    init()
    env, frames = make_env(prog)
    try:
        q1 = prog.build(make_collections(prog, frames))
        q2 = prog.build(make_collections(prog, frames))
        n1, n2, n3 = optimize(q1.expr)._name, optimize(q2.expr)._name, optimize(q1.expr)._name
        if not (n1 == n2 == n3):
            out.append(Result(f"{prog.name}|deterministic", VIOLATION, _sig(prog, "deterministic"), f"optimised plan names differ between repetitions: {n1} {n2} {n3}",
                              {"engine": "P", "program": prog.name, "stage": "deterministic"}))
        else:
            out.append(Result(f"{prog.name}|deterministic", HELD, "", "same plan name on repeated optimisation (concrete by-product)", extra={"trivial": True}))
    except Exception as e:
        pass
    return out


# ---------------------------------------------------------------------------------------------- C04 widening, C07 schema

def check_widening(prog: Program, extra=(("x1", "i"), ("x2", "f"))) -> list[Result]:
    """C04(b): the optimised query over sources that carry extra, never-mentioned columns computes the same as
    over the original sources (cells of shared columns are the same z3 variables; the extra cells are free)."""
    init()
    from symdf.core import Unsupported, StructuralError
    from symdf import equiv, conc
    from symdf.interp import GraphError
    from dask_expr._expr import optimize
    from dataclasses import replace

    name = f"{prog.name}|widening"
    sig = _sig(prog, "widening")
    wide = Program(prog.text, [replace(s, kinds={**s.kinds, **dict(extra)}) for s in prog.srcs], prog.ordered, prog.check_index, prog.family, prog.note, prog.env_globals)
    env_n, fr_n = make_env(prog)
    env_w, fr_w = make_env(wide)
    try:
        qn = prog.build(make_collections(prog, fr_n))
        qw = wide.build(make_collections(wide, fr_w))
        ref_n = symexec(plan(qn.expr, "unopt"), env_n)[0]
        ref_w = symexec(plan(qw.expr, "unopt"), env_w)[0]
    except (Unsupported, StructuralError, GraphError) as e:
        return [Result(name, SKIPPED, "", f"unsupported/invalid reference: {e}", extra={"unsupported": str(e)})]
    except Exception as e:
        return [Result(name, SKIPPED, "", f"program does not build: {type(e).__name__}: {str(e)[:200]}")]

    def replay(tables):
        fw, pw = _frames_of(tables)
        fn = {k: v[[c for c in v.columns if c not in dict(extra)]] for k, v in fw.items()}
        try:
            a = concrete(plan(prog.build(make_collections(prog, fn, pw)).expr, "unopt"))
        except Exception as e:
            return None, f"narrow reference fails: {e}"
        try:
            b = concrete(optimize(wide.build(make_collections(wide, fw, pw)).expr, fuse=True))
        except Exception as e:
            return True, f"optimised wide query raises {type(e).__name__}: {str(e)[:200]}"
        same, msg = conc.same_pandas(a, b, prog.ordered, prog.check_index)
        return (not same), msg

    global replay_stage
    saved = replay_stage
    try:
        replay_stage = lambda prog_, tables, stage, ref_stage="unopt": replay(tables)  # noqa: E731
        # the query must not depend on the extra columns even unoptimised, otherwise it is not a pruning question
        r0 = _compare_paths(prog, env_w, name + "-ref", sig, "widening-ref", ref_n, ref_w, time.time())
        if r0.status != HELD:
            return [Result(name, SKIPPED, "", "the unoptimised query itself depends on the extra columns (not a pruning question)", extra={"unsupported": "query reads all columns"})]
        try:
            opt_w = symexec(optimize(qw.expr, fuse=True), env_w)[0]
        except Unsupported as e:
            return [Result(name, SKIPPED, "", f"unsupported in optimised plan: {e}", extra={"unsupported": str(e)})]
        except (StructuralError, GraphError) as e:
            differs, msg = replay(conc.tables_from_model(env_w, None, 1))
            return [Result(name, VIOLATION if differs else HARNESS_ERROR, sig, f"optimised wide plan fails for every input: {e}; replay: {msg}", {"engine": "P", "program": prog.name, "stage": "widening"})]
        except Exception as e:
            differs, msg = replay(conc.tables_from_model(env_w, None, 1))
            return [Result(name, VIOLATION if differs else HARNESS_ERROR, sig, f"optimising the wide query fails: {type(e).__name__}: {e}; replay: {msg}", {"engine": "P", "program": prog.name, "stage": "widening"})]
        r = _compare_paths(prog, env_w, name, sig, "widening", ref_n, opt_w, time.time())
    finally:
        replay_stage = saved
    return [r]


def _labels_of(v):
    from symdf.frame import SymFrame, SymSeries, SymIndex, SymLabelSeries
    from symdf.core import SymScalar

    if isinstance(v, SymFrame):
        return ("frame", [str(x) for x in v.labels], str(v.index_.name) if v.index_.defined else None)
    if isinstance(v, SymSeries):
        return ("series", str(v.name), str(v.index_.name) if v.index_.defined else None)
    if isinstance(v, SymIndex):
        return ("index", str(v.name), None)
    if isinstance(v, SymLabelSeries):
        return ("series", str(v.name), None)
    if isinstance(v, (SymScalar, int, float, bool)):
        return ("scalar", None, None)
    return None


def _labels_of_meta(m):
    if isinstance(m, pd.DataFrame):
        return ("frame", [str(x) for x in m.columns], str(m.index.name))
    if isinstance(m, pd.Series):
        return ("series", str(m.name), str(m.index.name))
    if isinstance(m, pd.Index):
        return ("index", str(m.name), None)
    return ("scalar", None, None)


def _labels_of_real(v):
    if isinstance(v, (pd.DataFrame, pd.Series, pd.Index)):
        return _labels_of_meta(v)
    return ("scalar", None, None)


def _schema_mismatch(got, want):
    if got is None:
        return None
    if got[0] != want[0]:
        return f"container kind {got[0]} computed vs {want[0]} declared"
    if got[1] != want[1]:
        return f"labels/name {got[1]} computed vs {want[1]} declared"
    if got[2] is not None and want[2] is not None and got[2] != want[2]:
        return f"index name {got[2]} computed vs {want[2]} declared"
    return None


def check_schema(prog: Program) -> list[Result]:
    """C07 (labels / names / container kind): every partition of (a) the root of every optimiser stage and (b) every
    sub-collection of the logical query carries the labels and names its `_meta` declares; stages keep the declared
    schema of the query.  Labels are data-independent in the symbolic execution, so one run covers all inputs."""
    init()
    from symdf.core import Unsupported, StructuralError
    from symdf.interp import GraphError, run_graph
    from symdf import conc

    env, frames = make_env(prog)
    try:
        q = prog.build(make_collections(prog, frames))
    except Exception as e:
        return [Result(prog.name + "|schema", SKIPPED, "", f"program does not build: {type(e).__name__}: {str(e)[:200]}")]
    out = []
    try:
        declared = _labels_of_meta(q.expr._meta)
    except Exception as e:
        return [Result(prog.name + "|schema", SKIPPED, "", f"query has no meta: {type(e).__name__}")]
    targets = [("root@" + st, q.expr, st) for st in ["unopt"] + STAGES]
    seen = set()
    for node in q.expr.walk():
        if node._name in seen or node is q.expr:
            continue
        seen.add(node._name)
        targets.append((f"node:{type(node).__name__}", node, "unopt"))
    for label, node, stage in targets:
        name = f"{prog.name}|schema|{label}"
        sig = _sig(prog, "schema|" + label)
        try:
            pl = plan(node, stage)
        except Exception as e:
            out.append(Result(name, SKIPPED, "", f"planning failed: {type(e).__name__}"))
            continue
        try:
            want = _labels_of_meta(pl._meta)
        except Exception as e:
            out.append(Result(name, SKIPPED, "", f"node has no meta: {type(e).__name__}"))
            continue
        if label.startswith("root@") and want[:2] != declared[:2]:
            out.append(Result(name, VIOLATION, sig, f"stage {stage} changes the declared schema: {declared} -> {want}", {"engine": "P", "program": prog.name, "stage": label}))
            continue
        try:
            from symdf import core as _core

            def once():
                return run_graph(pl, env)[0]

            paths = _core.explore(once, lambda: z3.Solver(), base=env.constraints)
        except (Unsupported, StructuralError, GraphError) as e:
            out.append(Result(name, SKIPPED, "", f"unsupported: {e}", extra={"unsupported": str(e)}))
            continue
        except Exception as e:
            out.append(Result(name, SKIPPED, "", f"interpreter: {type(e).__name__}: {e}", extra={"unsupported": str(e)}))
            continue
        bad = None
        for pc, parts in paths:
            if isinstance(parts, Exception):
                continue
            for i, v in enumerate(parts):
                msg = _schema_mismatch(_labels_of(v), want)
                if msg:
                    bad = (i, msg)
                    break
            if bad:
                break
        if not bad:
            out.append(Result(name, HELD, "", f"{len(paths)} path(s), every partition carries {want}", queries=len(paths)))
            continue
        # replay on the real code: compute the node and compare real partition labels with its meta
        tables = conc.tables_from_model(env, None, 1)
        fr, present = _frames_of(tables)
        try:
            qq = prog.build(make_collections(prog, fr, present))
            target = qq.expr if label.startswith("root@") else [n for n in qq.expr.walk() if type(n).__name__ == type(node).__name__ and _labels_of_meta(n._meta) == _labels_of_meta(node._meta)][0]
            real_pl = plan(target, stage)
            parts = concrete_parts(real_pl)
            real_bad = [m for m in (_schema_mismatch(_labels_of_real(p), _labels_of_meta(real_pl._meta)) for p in parts) if m]
        except Exception as e:
            real_bad = None
            out.append(Result(name, HARNESS_ERROR, sig, f"schema mismatch in the model ({bad[1]}) could not be replayed: {type(e).__name__}: {e}"))
            continue
        if real_bad:
            r = Result(name, VIOLATION, sig, f"partition {bad[0]}: {bad[1]}; real execution: {real_bad[0]}", {"engine": "P", "program": prog.name, "stage": label})
            r.extra["mismatch_node"] = node._name
            out.append(r)
        else:
            out.append(Result(name, HARNESS_ERROR, sig, f"model partition {bad[0]} has {bad[1]} but real execution matches its meta: label model error"))
    # call-site signatures for label mismatches: the culprit is the deepest logical node whose partitions disagree with its own meta
    # (everything above it inherits the mismatch); the signature names its class, the kinds of its operands and the kind of mismatch
    bad_nodes = {r.extra["mismatch_node"] for r in out if r.status == VIOLATION and "mismatch_node" in r.extra}
    if bad_nodes:
        by_name = {n._name: n for n in q.expr.walk()}
        culprits = [by_name[n] for n in bad_nodes if n in by_name and not any(d._name in bad_nodes for d in by_name[n].dependencies())]
        culprit = culprits[0] if culprits else q.expr
        kinds = ",".join({0: "scalar", 1: "series", 2: "frame"}.get(getattr(d, "ndim", None), "?") + ("-1part" if d.npartitions == 1 and getattr(d, "ndim", None) == 1 else "") for d in culprit.dependencies())
        for r in out:
            if r.status == VIOLATION and "mismatch_node" in r.extra:
                from dask_expr._expr import Binop

                cls = "Binop" if isinstance(culprit, Binop) else type(culprit).__name__
                r.signature = f"schema|{cls}({kinds})|partition-labels"
    return out


# ---------------------------------------------------------------------------------------------- C02 reference semantics

REFUSALS = (NotImplementedError, ValueError)


def pandas_reference(prog: Program, tables):
    from symdf.shim import Pd, PdDX

    frames, present = _frames_of(tables)
    colls = {}
    for s in prog.srcs:
        df = frames[s.name]
        keep = present.get(s.name)
        if keep is not None and not all(keep):
            df = df[list(keep)]
        colls[s.name] = Pd(df)
    out = prog.build(colls, {"dx": PdDX})
    return Pd.unwrap(out)


def check_reference(prog: Program, validate=2) -> list[Result]:
    """C02: the optimised partitioned plan computes what pandas computes on the unpartitioned table (reference = the
    same program text applied to whole-table symbolic frames), or refuses explicitly."""
    init()
    from symdf import core, equiv, conc
    from symdf.core import Unsupported, StructuralError, ModelledMisalignment
    from symdf.interp import GraphError
    from symdf.shim import SymDX
    from dask_expr._expr import optimize

    name = f"{prog.name}|vs-pandas"
    sig = _sig(prog, "vs-pandas")
    env, frames = make_env(prog)

    def mk():
        s = z3.Solver()
        s.set("timeout", 10000)
        return s

    try:
        whole = {n: env.convert(f) for n, f in frames.items()}
        ref_paths = core.explore(lambda: prog.build({k: v._with() for k, v in whole.items()}, {"dx": SymDX}), mk, base=env.constraints)
    except Unsupported as e:
        return [Result(name, SKIPPED, "", f"unsupported in reference semantics: {e}", extra={"unsupported": str(e)})]
    except StructuralError as e:
        return [Result(name, SKIPPED, "", f"reference semantics fails structurally: {e}")]
    except Exception as e:
        return [Result(name, SKIPPED, "", f"reference semantics: {type(e).__name__}: {str(e)[:200]}", extra={"unsupported": f"{type(e).__name__}: {str(e)[:80]}"})]

    def replay(tables):
        fr, present = _frames_of(tables)
        try:
            ref = pandas_reference(prog, tables)
        except Exception as e:
            return None, f"pandas itself raises {type(e).__name__}: {str(e)[:150]}"
        try:
            q = prog.build(make_collections(prog, fr, present))
            got = concrete(optimize(q.expr, fuse=True))
        except REFUSALS as e:
            return False, f"partitioned plan refuses: {type(e).__name__}: {str(e)[:150]}"
        except Exception as e:
            return True, f"partitioned plan raises {type(e).__name__}: {str(e)[:200]} while pandas computes"
        chk = prog.check_index
        same, msg = conc.same_pandas(ref, got, prog.ordered, chk, check_names=True)
        return (not same), msg

    # translator validation of the reference semantics against real pandas
    if validate:
        rng = np.random.default_rng(seed() * 104729 + (hash(prog.text) & 0xFFFF))
        for _ in range(validate):
            tables = conc.random_tables(env, rng)
            if any(env.sources[n].get("sym_index") for n in tables):
                tables = _random_index(prog, env, tables, rng)
            try:
                real = pandas_reference(prog, tables)
            except Exception:
                continue
            ev = conc.Evaluator(conc.assignment(env, tables))
            if prog.assume is not None and not _assumed(prog, env, ev):
                continue
            try:
                hit = [v for pc, v in ref_paths if ev(pc)]
                if not hit or isinstance(hit[0], Exception):
                    continue
                got = conc.eval_result(hit[0], ev)
            except NotImplementedError:
                break
            idx = getattr(hit[0], "index_", None) or getattr(hit[0], "idx", None)
            chk = prog.check_index and (idx is None or idx.defined)
            same, msg = conc.same_pandas(real, got, prog.ordered, chk, check_names=False)
            if not same:
                return [Result(name + "|validate", HARNESS_ERROR, "", f"reference semantics disagrees with real pandas: {msg}; tables={ {k: v[0].to_dict('list') for k, v in tables.items()} } index={ {k: v[0].index.tolist() for k, v in tables.items()} }")]
    try:
        q = prog.build(make_collections(prog, frames))
        pl = optimize(q.expr, fuse=True)
    except REFUSALS as e:
        return [Result(name, HELD, "", f"refuses at planning time: {type(e).__name__}: {str(e)[:120]}", extra={"trivial": True})]
    except Exception as e:
        differs, msg = replay(conc.tables_from_model(env, None, 1))
        return [Result(name, VIOLATION if differs else SKIPPED, sig, f"planning fails: {type(e).__name__}: {str(e)[:200]}; replay: {msg}", {"engine": "P", "program": prog.name, "stage": "vs-pandas"})]
    try:
        got_paths, it = symexec(pl, env)
    except Unsupported as e:
        differs, msg = replay(conc.tables_from_model(env, None, 1))
        if differs and "raises" in msg:
            return [Result(name, VIOLATION, sig, f"plan fails for every input ({e}); replay: {msg}", {"engine": "P", "program": prog.name, "stage": "vs-pandas"})]
        return [Result(name, SKIPPED, "", f"unsupported in plan: {e}", extra={"unsupported": str(e)})]
    except (StructuralError, GraphError) as e:
        differs, msg = replay(conc.tables_from_model(env, None, 1))
        return [Result(name, VIOLATION if differs else HARNESS_ERROR, sig, f"plan fails for every input: {e}; replay: {msg}", {"engine": "P", "program": prog.name, "stage": "vs-pandas"})]
    # refusals are allowed, other exceptions are candidates; reference paths that raise are outside the comparison
    ref_ok = [(pc, v) for pc, v in ref_paths if not isinstance(v, Exception)]
    if not ref_ok:
        return [Result(name, SKIPPED, "", f"reference raises on every path: {ref_paths[0][1]!r}", extra={"unsupported": "reference raises"})]
    got2 = []
    for pc, v in got_paths:
        if isinstance(v, REFUSALS) or isinstance(v, ModelledMisalignment):
            continue  # explicit refusal (or an alignment case the model cannot decide): not a wrong answer
        got2.append((pc, v))
    global replay_stage
    saved = replay_stage
    out = []
    base = list(env.constraints)
    try:
        replay_stage = lambda prog_, tables, stage, ref_stage="unopt": replay(tables)  # noqa: E731
        if prog.known is not None:
            ksig, region_fn = prog.known
            region = region_fn(env, prog)
            # (1) outside the listed finding's input region the property must hold
            env.constraints = base + [z3.Not(region)]
            r = _compare_paths(prog, env, name, sig, "vs-pandas", ref_ok, got2, time.time())
            # (2) inside it the finding is re-observed (or has disappeared)
            env.constraints = base + [region]
            k = _compare_paths(prog, env, name + "|known-region", ksig, "vs-pandas", ref_ok, got2, time.time())
            k.signature = ksig if k.status == VIOLATION else k.signature
            out.append(k)
        else:
            r = _compare_paths(prog, env, name, sig, "vs-pandas", ref_ok, got2, time.time())
    finally:
        replay_stage = saved
        env.constraints = base
    r.extra["callables"] = sorted(set(it.calls))[:60] if it else []
    r.extra["refusing_paths"] = len(got_paths) - len(got2)
    return [r] + out


def _random_index(prog, env, tables, rng):
    """random index labels inside the declared divisions (sorted inside each partition)"""
    out = dict(tables)
    for s in prog.srcs:
        if s.divisions is None or s.how not in ("delayed", "map", "graph"):
            continue
        df, present = tables[s.name]
        cuts = s.cuts or tuple(int(round(i * s.nrows / s.npart)) for i in range(s.npart + 1))
        idx = []
        np_ = len(cuts) - 1
        for p, (a, b) in enumerate(zip(cuts, cuts[1:])):
            lo, hi = s.divisions[p], s.divisions[p + 1]
            hi_incl = hi if p == np_ - 1 else hi - 1
            vals = sorted(int(x) for x in rng.integers(lo, max(lo, hi_incl) + 1, size=b - a))
            idx += vals
        df = df.copy()
        df.index = pd.Index(idx, dtype="int64", name=df.index.name)
        out[s.name] = (df, present)
    return out


# ---------------------------------------------------------------------------------------------- C10 / C17: two program texts

def check_two_programs(prog: Program, other_text: str, label: str, mk_plan=None, env_extra=None) -> list[Result]:
    """obligation: `other_text` (same sources) computes the same result as prog.text, up to row order and partition layout"""
    init()
    from symdf.core import Unsupported, StructuralError
    from symdf import equiv, conc
    from symdf.interp import GraphError
    from dask_expr._expr import optimize

    mk_plan = mk_plan or (lambda e: optimize(e, fuse=True))
    other = Program(other_text, prog.srcs, prog.ordered, prog.check_index, prog.family, prog.note, dict(prog.env_globals, **(env_extra or {})))
    name = f"{prog.text} == {other_text} @ {prog.name.split(' @ ')[-1]}|{label}"
    sig = name
    env, frames = make_env(prog)

    def replay(tables):
        fr, present = _frames_of(tables)
        try:
            a = concrete(mk_plan(prog.build(make_collections(prog, fr, present)).expr))
        except Exception as e:
            return None, f"default query fails concretely: {type(e).__name__}: {e}"
        try:
            b = concrete(mk_plan(other.build(make_collections(other, fr, present)).expr))
        except Exception as e:
            return True, f"variant raises {type(e).__name__}: {str(e)[:200]} while the default computes"
        same, msg = conc.same_pandas(a, b, prog.ordered, prog.check_index)
        return (not same), msg

    try:
        colls = make_collections(prog, frames)
        a_plan = mk_plan(prog.build(colls).expr)
    except Exception as e:
        return [Result(name, SKIPPED, "", f"default query does not build: {type(e).__name__}: {str(e)[:200]}")]
    try:
        b_plan = mk_plan(other.build(make_collections(other, frames)).expr)
    except Exception as e:
        differs, msg = replay(conc.tables_from_model(env, None, 1))
        st = VIOLATION if differs else (SKIPPED if differs is None else HARNESS_ERROR)
        return [Result(name, st, sig, f"variant does not plan: {type(e).__name__}: {str(e)[:200]}; replay: {msg}", {"engine": "P", "program": name, "stage": label})]
    try:
        a_paths, a_it = symexec(a_plan, env)
    except Unsupported as e:
        return [Result(name, SKIPPED, "", f"unsupported in default plan: {e}", extra={"unsupported": str(e)})]
    except (StructuralError, GraphError) as e:
        return [Result(name, SKIPPED, "", f"default plan fails structurally: {e}")]
    try:
        b_paths, b_it = symexec(b_plan, env)
    except Unsupported as e:
        differs, msg = replay(conc.tables_from_model(env, None, 1))
        if differs and "raises" in msg:
            return [Result(name, VIOLATION, sig, f"variant plan fails for every input ({e}); replay: {msg}", {"engine": "P", "program": name, "stage": label})]
        return [Result(name, SKIPPED, "", f"unsupported in variant plan: {e}", extra={"unsupported": str(e)})]
    except (StructuralError, GraphError) as e:
        differs, msg = replay(conc.tables_from_model(env, None, 1))
        return [Result(name, VIOLATION if differs else HARNESS_ERROR, sig, f"variant plan fails for every input: {e}; replay: {msg}", {"engine": "P", "program": name, "stage": label})]
    global replay_stage
    saved = replay_stage
    try:
        replay_stage = lambda prog_, tables, stage, ref_stage="unopt": replay(tables)  # noqa: E731
        r = _compare_paths(prog, env, name, sig, label, a_paths, b_paths, time.time())
    finally:
        replay_stage = saved
    r.extra["callables"] = sorted(set(a_it.calls) | set(b_it.calls))[:60] if a_it and b_it else []
    r.extra["plans_differ"] = a_plan._name != b_plan._name
    classes = set()
    for n in b_plan.walk():
        classes.add(type(n).__name__)
        for inner in (getattr(n, "exprs", None) or []) if type(n).__name__ == "Fused" else []:
            classes.add(type(inner).__name__)
    r.extra["plan_classes"] = sorted(classes)
    if a_plan._name == b_plan._name:
        r.extra["trivial"] = True
    return [r]


# ---------------------------------------------------------------------------------------------- C06 divisions truthful

USER_ASSERTED = ("SetDivisions", "FromDelayed", "FromMap", "FromGraph", "FromMapProjectable")


def check_divisions(prog: Program) -> list[Result]:
    """C06: for every node of the unoptimised and of the optimised plan that reports known divisions (not merely passing on
    what the user asserted at a source), every valid row of computed partition i has div[i] <= index < div[i+1]
    (<= for the last), for all index labels / cell values; npartitions equals the number of output keys."""
    init()
    from symdf.core import Unsupported, StructuralError, And, Or, Not, I
    from symdf.interp import GraphError, run_graph
    from symdf import conc, core
    from dask_expr._expr import optimize

    env, frames = make_env(prog)
    out = []
    try:
        q = prog.build(make_collections(prog, frames))
    except Exception as e:
        return [Result(prog.name + "|divisions", SKIPPED, "", f"program does not build: {type(e).__name__}: {str(e)[:160]}")]
    for stage, mk in (("unopt", lambda e: e.lower_completely()), ("fused", lambda e: optimize(e, fuse=True).lower_completely())):
        name = f"{prog.name}|divisions|{stage}"
        sig = _sig(prog, "divisions|" + stage)
        payload = {"engine": "P", "program": prog.name, "stage": "divisions|" + stage}
        try:
            pl = mk(q.expr)
        except Exception as e:
            out.append(Result(name, SKIPPED, "", f"planning failed: {type(e).__name__}: {str(e)[:100]}"))
            continue
        # static structure of every node
        static = None
        for node in list(q.expr.walk()) + list(pl.walk()):  # the logical query (what the user holds) and the plan
            try:
                d = node.divisions
            except Exception:
                continue
            if len(d) != node.npartitions + 1:
                static = f"{type(node).__name__}: {len(d)} division entries for {node.npartitions} partitions"
                break
            if d and d[0] is not None and not all(x is not None for x in d):
                static = f"{type(node).__name__}: divisions mix None and values: {d}"
                break
            if d and d[0] is not None:
                try:
                    ok = all(d[i] <= d[i + 1] for i in range(len(d) - 1))
                except TypeError:
                    ok = True
                if not ok:
                    static = f"{type(node).__name__}: divisions not sorted: {d}"
                    break
        if static:
            out.append(Result(name, VIOLATION, sig, static, payload))
            continue

        holder = {}

        def once():
            parts, it = run_graph(pl, env)
            holder["it"] = it
            return dict(it.memo)

        try:
            paths = core.explore(once, lambda: z3.Solver(), base=env.constraints)
        except (Unsupported, StructuralError, GraphError) as e:
            out.append(Result(name, SKIPPED, "", f"unsupported: {e}", extra={"unsupported": str(e)}))
            continue
        except Exception as e:
            out.append(Result(name, SKIPPED, "", f"interpreter: {type(e).__name__}: {str(e)[:120]}", extra={"unsupported": str(e)[:80]}))
            continue
        bad = []
        nodes_checked = 0
        for node in pl.walk():
            if type(node).__name__ in USER_ASSERTED:
                continue
            try:
                d = node.divisions
            except Exception:
                continue
            if not d or d[0] is None:
                continue
            try:
                dv = [int(x) for x in d]
            except (TypeError, ValueError):
                continue
            nodes_checked += 1
            for pc, memo in paths:
                if isinstance(memo, Exception):
                    continue
                for i in range(node.npartitions):
                    v = memo.get((node._name, i))
                    if v is None or not hasattr(v, "valid"):
                        continue
                    idx = v.index_ if hasattr(v, "index_") else getattr(v, "idx", None)
                    if idx is None or not idx.defined or idx.labels:
                        continue
                    last = i == node.npartitions - 1
                    for s in range(v.nslots):
                        x = idx.vals[s]
                        if isinstance(x, tuple):
                            continue
                        x = I(x)
                        inside = And(x >= dv[i], (x <= dv[i + 1]) if last else (x < dv[i + 1]))
                        bad.append((And(pc, v.valid[s], Not(inside)), type(node).__name__, i, dv))
        if not bad:
            out.append(Result(name, HELD, "", f"no node reports derived known divisions ({nodes_checked} nodes)", extra={"trivial": True}))
            continue
        r, model, dt = solve(env.constraints, Or(*[b[0] for b in bad]))
        if r == "unsat":
            out.append(Result(name, HELD, "", f"unsat: {len(bad)} row conditions over {nodes_checked} nodes with known divisions", None, dt, 1))
            continue
        if r != "sat":
            out.append(Result(name, INCONCLUSIVE, "", "z3 unknown", None, dt, 1))
            continue
        which = [b for b in bad if z3.is_true(model.eval(b[0], model_completion=True))][:1]
        tables = conc.tables_from_model(env, model)
        fr, present = _frames_of(tables)
        # replay on the real code: compute every node's partitions and compare with its divisions
        try:
            qq = prog.build(make_collections(prog, fr, present))
            pl2 = mk(qq.expr)
            found = None
            for node in pl2.walk():
                if type(node).__name__ in USER_ASSERTED:
                    continue
                d = node.divisions
                if not d or d[0] is None:
                    continue
                parts = concrete_parts(node)
                for i, part in enumerate(parts):
                    if not hasattr(part, "index") or not len(part):
                        continue
                    ix = part.index if not isinstance(part, pd.Index) else part
                    lastp = i == len(parts) - 1
                    okp = all((d[i] <= x) and ((x <= d[i + 1]) if lastp else (x < d[i + 1])) for x in ix)
                    if not okp:
                        found = f"{type(node).__name__} partition {i} holds index {list(ix)} but reports divisions {d}"
                        break
                if found:
                    break
        except Exception as e:
            found = None
            out.append(Result(name, HARNESS_ERROR, sig, f"model says rows fall outside {which[0][1:] if which else ''} but the replay crashed: {type(e).__name__}: {e}", payload, dt, 1))
            continue
        if found:
            out.append(Result(name, VIOLATION, sig, found, dict(payload, tables={k: v[0].reset_index().to_dict('list') for k, v in tables.items()}), dt, 1))
        else:
            out.append(Result(name, HARNESS_ERROR, sig, f"model: rows outside reported divisions at {which[0][1:] if which else ''}, but the real partitions respect them", payload, dt, 1))
    return out


# ---------------------------------------------------------------------------------------------- C09 graph structure

def graph_problems(expr):
    """structural C09 assertions on the materialised graph of a lowered expression (data-independent)"""
    from dask_expr._core import Expr
    from dask_expr._expr import Fused

    problems = []
    layers = []
    seen = set()
    stack = [expr]
    while stack:
        e = stack.pop()
        if e._name in seen:
            continue
        seen.add(e._name)
        try:
            layers.append((e, e._layer()))
        except Exception as ex:
            problems.append(f"{type(e).__name__}._layer raised {type(ex).__name__}: {ex}")
            continue
        stack.extend(e.dependencies())
    merged = {}
    for e, layer in layers:
        for k, t in layer.items():
            if k in merged and not _same_task(merged[k][1], t):
                problems.append(f"key {k!r} defined differently by {type(merged[k][0]).__name__} and {type(e).__name__}")
            merged.setdefault(k, (e, t))
    dsk = {k: v[1] for k, v in merged.items()}
    names = {k[0] for k in dsk if isinstance(k, tuple)}
    for i in range(expr.npartitions):
        if (expr._name, i) not in dsk:
            problems.append(f"output key {(expr._name, i)!r} not defined")
    for e, layer in layers:
        if isinstance(e, Expr) and not isinstance(e, Fused):
            for i in range(e.npartitions):
                if (e._name, i) not in dsk and type(e).__name__ not in ("TreeReduce",):
                    problems.append(f"{type(e).__name__}: key {(e._name, i)!r} missing for a reported partition")
                    break

    def is_keyish(t):
        return isinstance(t, tuple) and len(t) >= 2 and isinstance(t[0], str) and t[0] in names and all(isinstance(x, (int, str)) for x in t[1:])

    def scan(t, owner, local=None, depth=0):
        if depth > 60:
            return
        if isinstance(t, Expr) or (hasattr(t, "expr") and hasattr(t, "__dask_graph__")):
            problems.append(f"planner object {type(t).__name__} embedded in the task of {owner!r}")
            return
        if is_keyish(t):
            if t not in dsk and not (local is not None and t in local):
                problems.append(f"{owner!r} references undefined key {t!r}")
            return
        if isinstance(t, tuple) and t and t[0] is Fused._execute_task:
            sub = t[1]
            for kk, vv in sub.items():
                scan(vv, (owner, kk), local=sub, depth=depth + 1)
            for a in t[3:]:
                scan(a, owner, local, depth + 1)
            return
        if isinstance(t, (list, tuple)):
            for x in t:
                scan(x, owner, local, depth + 1)
        elif isinstance(t, dict):
            for x in t.values():
                scan(x, owner, local, depth + 1)

    for k, t in dsk.items():
        scan(t, k)
    # acyclic
    state = {}

    def deps_of(t, out, depth=0):
        if depth > 60:
            return
        if is_keyish(t) and t in dsk:
            out.append(t)
        elif isinstance(t, (list, tuple)):
            for x in t:
                deps_of(x, out, depth + 1)
        elif isinstance(t, dict):
            for x in t.values():
                deps_of(x, out, depth + 1)

    import sys

    sys.setrecursionlimit(10000)

    def visit(k):
        st = state.get(k)
        if st == 1:
            return False
        if st == 2:
            return True
        state[k] = 1
        out = []
        t = dsk[k]
        deps_of(t[1:] if (isinstance(t, tuple) and t and callable(t[0])) else t if not is_keyish(t) else [t], out)
        for d in out:
            if d != k and not visit(d):
                return False
        state[k] = 2
        return True

    for k in list(dsk):
        if not visit(k):
            problems.append(f"cycle through {k!r}")
            break
    return problems, len(dsk)


def _same_task(a, b):
    try:
        if a is b:
            return True
        if type(a) is not type(b):
            return False
        if isinstance(a, (tuple, list)):
            return len(a) == len(b) and all(_same_task(x, y) for x, y in zip(a, b))
        if isinstance(a, dict):
            return a.keys() == b.keys() and all(_same_task(a[k], b[k]) for k in a)
        if isinstance(a, (pd.DataFrame, pd.Series, pd.Index)):
            return a.equals(b)
        if isinstance(a, np.ndarray):
            if a.shape != b.shape:
                return False
            try:
                return bool(np.array_equal(a, b, equal_nan=True))
            except TypeError:
                return bool(np.array_equal(a, b))
        r = a == b
        if isinstance(r, (bool, np.bool_)):
            return bool(r)
        return bool(np.all(r)) if hasattr(r, "__len__") or hasattr(r, "all") else True
    except Exception:
        return True


def _problem_kind(msg: str) -> str:
    for needle, kind in (("planner object", "embedded-planner-object"), ("references undefined key", "undefined-key"), ("defined differently", "ambiguous-key"),
                         ("output key", "missing-output"), ("missing for a reported partition", "missing-output"), ("cycle", "cycle"), ("_layer raised", "layer-raises")):
        if needle in msg:
            return kind
    return "other"


def check_graphs(prog: Program) -> list[Result]:
    """C09 by-product of engine P: graph structure of every optimiser stage, fused and unfused; the symbolic interpreter also
    executes every graph, so an undefined key or a cycle on an executed path surfaces as GraphError there."""
    init()
    from dask_expr._expr import optimize
    import pickle

    env, frames = make_env(prog)
    try:
        q = prog.build(make_collections(prog, frames))
    except Exception as e:
        return [Result(prog.name + "|graph", SKIPPED, "", f"program does not build: {type(e).__name__}")]
    out = []
    for stage in ["unopt"] + STAGES:
        name = f"{prog.name}|graph|{stage}"
        try:
            pl = plan(q.expr, stage)
        except Exception as e:
            out.append(Result(name, SKIPPED, "", f"planning failed: {type(e).__name__}: {str(e)[:80]}"))
            continue
        try:
            probs, nkeys = graph_problems(pl)
        except Exception as e:
            out.append(Result(name, SKIPPED, "", f"graph could not be materialised: {type(e).__name__}: {str(e)[:80]}"))
            continue
        if probs:
            # the signature names the program and the kind of structural defect (not the stage: one defect shows at every stage)
            out.append(Result(name, VIOLATION, _sig(prog, "graph|" + _problem_kind(probs[0])), "; ".join(probs[:3]), {"engine": "P", "program": prog.name, "stage": "graph|" + stage}, 0.0, 0, {"keys": nkeys}))
        else:
            out.append(Result(name, HELD, "", f"{nkeys} keys: outputs defined, closed, acyclic, unambiguous, no planner objects", None, 0.0, 0, {"keys": nkeys}))
    return out


# ---------------------------------------------------------------------------------------------- C16 reconstruction in a clean environment

def check_reconstruct(prog: Program) -> list[Result]:
    """C16 by-product: every form (logical, optimised, lowered) of the query is pickled, every module-level cache and the
    singleton table are emptied (the receiving process), and the unpickled collection must report the same name, schema
    and divisions and compute the same result.  Concrete (tag data); the environment is the adversary."""
    init()
    import pickle

    import dask_expr._shuffle as _sh
    import dask_expr._repartition as _rp
    from dask_expr._core import Expr
    from dask_expr._collection import new_collection
    from dask_expr._expr import optimize
    from symdf import conc

    env, frames = make_env(prog)
    out = []
    try:
        q = prog.build(make_collections(prog, frames))
    except Exception as e:
        return [Result(prog.name + "|pickle", SKIPPED, "", f"program does not build: {type(e).__name__}")]
    forms = {"logical": lambda: q, "optimized": lambda: new_collection(optimize(q.expr)), "lowered": lambda: new_collection(q.expr.lower_completely())}
    # phase 1 (sending process): build every form, record what it reports, pickle it
    sent = {}
    for form, mk in forms.items():
        name = f"{prog.name}|pickle|{form}"
        try:
            coll = mk()
            want = (coll._name, _labels_of_meta(coll._meta), tuple(coll.divisions), coll.npartitions)
            ref = concrete(coll.expr)
            sent[form] = (want, ref, pickle.dumps(coll))
        except Exception as e:
            out.append(Result(name, SKIPPED, "", f"form cannot be built/pickled: {type(e).__name__}: {str(e)[:100]}"))
    # phase 2 (receiving process): no live expression, empty singleton table, empty caches
    del q
    saved = (dict(_sh.divisions_lru.data), dict(_rp.mem_usages_lru.data))
    try:
        for form, (want, ref, blob) in sent.items():
            name = f"{prog.name}|pickle|{form}"
            sig = _sig(prog, "pickle|" + form)
            _sh.divisions_lru.data.clear()
            _rp.mem_usages_lru.data.clear()
            Expr._instances.clear()
            try:
                back = pickle.loads(blob)
                got = (back._name, _labels_of_meta(back._meta), tuple(back.divisions), back.npartitions)
                res = concrete(back.expr)
            except Exception as e:
                out.append(Result(name, VIOLATION, sig, f"received collection fails: {type(e).__name__}: {str(e)[:200]}", {"engine": "P", "program": prog.name, "stage": "pickle|" + form}))
                continue
            if got != want:
                out.append(Result(name, VIOLATION, sig, f"name/schema/divisions differ after the round trip: {want} vs {got}", {"engine": "P", "program": prog.name, "stage": "pickle|" + form}))
                continue
            same, msg = conc.same_pandas(ref, res, prog.ordered, prog.check_index)
            if not same:
                out.append(Result(name, VIOLATION, sig, f"result differs after the round trip: {msg}", {"engine": "P", "program": prog.name, "stage": "pickle|" + form}))
            else:
                out.append(Result(name, HELD, "", "same name, schema, divisions and result in a clean environment", queries=1))
    finally:
        _sh.divisions_lru.data.update(saved[0])
        _rp.mem_usages_lru.data.update(saved[1])
    return out
