"""C19 by-product (concrete, not solver-based): the optimised plan name of a few queries must not depend on PYTHONHASHSEED."""
from __future__ import annotations

import os
import subprocess
import sys

from .common import HELD, VIOLATION, INCONCLUSIVE, Result, ROOT

SCRIPT = r'''
import warnings; warnings.filterwarnings("ignore")
import pandas as pd, dask
dask.config.set({"dataframe.convert-string": False, "dataframe.shuffle.method": "tasks"})
import dask_expr as dx
pdf = pd.DataFrame({"a": [1, 2, 3, 4, 5, 6], "b": [1.0, None, 3.0, 4.0, 5.0, 6.0], "c": [1, 2, 3, 4, 5, 6]})
r = pd.DataFrame({"a": [1, 2, 9], "e": [10, 20, 30]})
L = dx.from_pandas(pdf, npartitions=3); R = dx.from_pandas(r, npartitions=2)
Y = L[~(L.a > 0)]
qs = [
    Y[(Y.a > 0) & (Y.c < 2)],
    (L.a + 1) * (L.a - 1) + L.c,
    L.assign(x=L.a + L.c, y=L.a * 2)[["x", "y"]],
    L.merge(R, on="a")[["b", "e"]] + 1,
    (L[L.a > 0].shuffle("a")[["a", "c"]] + 1).groupby("a").c.sum(),
    (L.fillna(0).a + (L * 2).c) * L.abs().a,
    L[(L.a > 1) | (L.c < 0)].b.sum() + L.c.sum(),
    L[L.a.isin(["p", "q", "r", "s", "t", "p"])],
    L.a.isin([3, 1, 2, 1]).sum(),
    L.groupby("a").agg({"c": ["sum", "max"], "b": "mean"}),
    L.merge(R, on="a", how="left", suffixes=("_l", "_r")).fillna({"e": 0, "b": 1}),
    L.rename(columns={"a": "x", "c": "y"}).astype({"x": "float64", "y": "int32"}),
    L.drop(columns=["b", "c"]).assign(z=1, w=2),
]
for q in qs:
    o = q.optimize()
    print(o._name, sorted(str(k) for k in o.__dask_graph__())[:3])
# data-dependent planning: the divisions a sort / set_index plans from sampled quantiles (the sampling seed must not depend on the hash seed)
import numpy as np
big = pd.DataFrame({"k": np.random.RandomState(3).permutation(400) % 97, "v": np.arange(400)})
B = dx.from_pandas(big, npartitions=4)
for q in (B.set_index("k"), B.sort_values("k"), B.set_index("k", npartitions=3), B.assign(k2=B.k * 2).set_index("k2")):
    print("divisions", tuple(q.divisions), tuple(q.optimize().divisions))
'''


def run(tier):
    outs = {}
    for seed in ("0", "1", "12345") if tier == "quick" else ("0", "1", "2", "3", "12345", "999"):
        env = dict(os.environ, PYTHONHASHSEED=seed)
        try:
            p = subprocess.run([os.path.join(ROOT, ".venv/bin/python"), "-c", SCRIPT], capture_output=True, text=True, timeout=300, env=env)
        except subprocess.TimeoutExpired:
            return [Result("hashseed.determinism", INCONCLUSIVE, "", "subprocess timed out")]
        if p.returncode != 0:
            return [Result("hashseed.determinism", INCONCLUSIVE, "", f"subprocess failed: {p.stderr[-300:]}")]
        outs[seed] = p.stdout.strip().splitlines()
    base = outs["0"]
    for seed, lines in outs.items():
        for i, (a, b) in enumerate(zip(base, lines)):
            if a != b:
                return [Result("hashseed.determinism", VIOLATION, "hashseed.determinism", f"query {i}: plan / task names (or planned divisions) differ between PYTHONHASHSEED=0 and {seed}: {a[:80]} vs {b[:80]}",
                               {"engine": "X", "kind": "hashseed", "query": i, "seeds": ["0", seed]})]
    return [Result("hashseed.determinism", HELD, "", f"{len(base)} optimised plans have identical names and task keys under {len(outs)} hash seeds (concrete by-product, no solver)", extra={"trivial": True})]
