"""./check driver: dispatches to vf/props/<ID>.py, writes evidence, prints verdict lines."""
from __future__ import annotations

import argparse
import importlib
import json
import os
import sys
import time
import traceback

from . import common


def _sweep_scratch(max_age_s=1800):
    """parquet datasets written for symbolic sources live under .work/pq for the duration of one program; drop the ones left by earlier runs
    (older than half an hour, so that a check running concurrently keeps its files)"""
    import shutil

    base = os.path.join(common.WORK, "pq")
    try:
        now = time.time()
        for name in os.listdir(base):
            path = os.path.join(base, name)
            if now - os.path.getmtime(path) > max_age_s:
                shutil.rmtree(path, ignore_errors=True)
    except OSError:
        pass


def main(argv=None):
    ap = argparse.ArgumentParser()
    ap.add_argument("prop")
    ap.add_argument("--tier", default=os.environ.get("VERIF_TIER", "quick"), choices=["quick", "thorough"])
    ap.add_argument("--replay", default=None)
    ap.add_argument("--only", default=None, help="substring filter on obligation names (debugging)")
    args = ap.parse_args(argv)
    t0 = time.time()
    _sweep_scratch()
    if args.replay:
        payload = json.load(open(args.replay))
        rp = payload.get("replay") or {}
        if rp.get("engine") == "K":
            from . import krun
            return krun.replay(rp)
        from . import prun
        return prun.replay(rp)
    try:
        mod = importlib.import_module(f"vf.props.{args.prop}")
    except ModuleNotFoundError:
        print(f"no check for {args.prop}", file=sys.stderr)
        return common.EXIT_HARNESS
    try:
        level, results, coverage, assumptions = mod.run(args.tier, only=args.only)
    except Exception:
        traceback.print_exc()
        print(f"HARNESS-ERROR property={args.prop} driver crashed")
        return common.EXIT_HARNESS
    return common.finish(args.prop, args.tier, level, results, coverage, assumptions, t0)


if __name__ == "__main__":
    sys.exit(main())
