"""./check driver: dispatches to vf/props/<ID>.py, writes evidence, prints verdict lines."""
from __future__ import annotations

import argparse
import importlib
import json
import os
import sys
import time
import traceback

from . import common


def main(argv=None):
    ap = argparse.ArgumentParser()
    ap.add_argument("prop")
    ap.add_argument("--tier", default=os.environ.get("VERIF_TIER", "quick"), choices=["quick", "thorough"])
    ap.add_argument("--replay", default=None)
    ap.add_argument("--only", default=None, help="substring filter on obligation names (debugging)")
    args = ap.parse_args(argv)
    t0 = time.time()
    if args.replay:
        payload = json.load(open(args.replay))
        rp = payload.get("replay") or {}
        if rp.get("engine") == "K":
            from . import krun
            return krun.replay(rp)
        from . import prun
        return prun.replay(rp)
    try:
        mod = importlib.import_module(f"vf.props.{args.prop}")
    except ModuleNotFoundError:
        print(f"no check for {args.prop}", file=sys.stderr)
        return common.EXIT_HARNESS
    try:
        level, results, coverage, assumptions = mod.run(args.tier, only=args.only)
    except Exception:
        traceback.print_exc()
        print(f"HARNESS-ERROR property={args.prop} driver crashed")
        return common.EXIT_HARNESS
    return common.finish(args.prop, args.tier, level, results, coverage, assumptions, t0)


if __name__ == "__main__":
    sys.exit(main())
