"""C07 - declared schema matches the computed data (container kind, labels and order, series/index names)."""
from .. import pfam, prun
from ..common import seed

ASSUMPTIONS = [
    "decided for container kind, column labels and order, series and index names; dtype kinds are OUTSIDE the claim (dtype promotion lives in pandas C code)",
    "labels/names are computed without forking on data in the symbolic execution (the path explorer covers data-dependent branches), so one run covers all inputs within the row bound",
    "scope: the root of every optimiser stage and every sub-collection of the logical query (nodes a user can hold); internal lowered nodes are not collections",
]


def run(tier, only=None):
    from families import f01

    progs = f01.all_programs(tier)
    progs = f01.select(progs, "quick", seed() + 2, 150 if tier == "quick" else 3000)
    results, info = pfam.run(progs, prun.check_schema, only)
    info["states"] = max(1, len([r for r in results if r.status == "held"]))
    info["transitions"] = max(1, sum(r.queries for r in results))
    info["traces_validated_against_impl"] = info.get("disagreements_checked", 0)
    info["rule"] = "one obligation per (program, stage root | logical sub-collection): every partition's labels/names/kind equal the node's _meta; stages keep the query's declared schema"
    return "model_checking", results, info, ASSUMPTIONS
