"""C07 - declared schema matches the computed data (container kind, labels and order, series/index names)."""
from .. import pfam, prun
from ..common import seed

ASSUMPTIONS = [
    "decided for container kind, column labels and order, series and index names; dtype kinds are OUTSIDE the claim (dtype promotion lives in pandas C code)",
    "labels/names are computed without forking on data in the symbolic execution (the path explorer covers data-dependent branches), so one run covers all inputs within the row bound",
    "scope: the root of every optimiser stage and every sub-collection of the logical query (nodes a user can hold); internal lowered nodes are not collections",
]


def _extras(tier):
    """queries whose schema depends on an option that has to survive lowering, or on inputs that agree only up to order"""
    import dask_expr as dx
    from ..prun import Program, Src

    L = Src("L", 4, {"a": "i", "b": "f", "c": "i"}, 2)
    L3 = Src("L", 5, {"a": "i", "b": "f", "c": "i"}, 3)
    R = Src("R", 3, {"a": "i", "e": "i"}, 2)
    R1 = Src("R", 3, {"a": "i", "e": "i"}, 1)
    M = Src("M", 3, {"c": "i", "b": "f", "a": "i"}, 2)  # L's columns in another order
    out = []
    for how in ("inner", "left", "right", "outer"):
        for kw in ("", ", broadcast=True", ", broadcast=False", ", shuffle_method='tasks'"):
            for srcs in ([L, R], [L3, R], [L, R1]):
                out.append(Program(f"L.merge(R, on='a', how={how!r}, indicator=True{kw})", srcs, family="F07", note="merge-indicator", env_globals={"dx": dx}))
        out.append(Program(f"L.merge(R, on='a', how={how!r}, suffixes=('_l', '_r'), broadcast=True)", [L3, R], family="F07", note="merge-suffixes", env_globals={"dx": dx}))
    # frame <op> reduction-of-the-frame: pandas keeps the column order when the series is labelled like the columns
    for text in ("M - M.sum()", "(M - M.mean()) / M.std()", "M[['c', 'b']] - M.sum()", "L - L.sum()", "(M - M.min()).nlargest(2, 'c')"):
        out.append(Program(text, [L, M] if "L" in text else [M], family="F07", note="frame-op-reduction", env_globals={"dx": dx}))
    for text in ("dx.concat([L, M])", "dx.concat([M, L])", "dx.concat([L, M, L])", "dx.concat([L[['a', 'b']], M[['b', 'a']]])", "dx.concat([L, M], join='inner')",
                 "dx.concat([L.a, M.a])", "dx.concat([L.a, M.c])", "dx.concat([L, M])[['a', 'c']]", "dx.concat([L, M], interleave_partitions=True)",
                 "dx.concat([L, M.rename(columns={'c': 'z'})])"):
        out.append(Program(text, [L, M], family="F07", note="concat-order", env_globals={"dx": dx}))
    return out


def run(tier, only=None):
    from families import f01

    progs = f01.all_programs(tier)
    progs = f01.select(progs, "quick", seed() + 2, 150 if tier == "quick" else 3000)
    progs += _extras(tier)
    results, info = pfam.run(progs, prun.check_schema, only)
    info["states"] = max(1, len([r for r in results if r.status == "held"]))
    info["transitions"] = max(1, sum(r.queries for r in results))
    info["traces_validated_against_impl"] = info.get("disagreements_checked", 0)
    info["rule"] = "one obligation per (program, stage root | logical sub-collection): every partition's labels/names/kind equal the node's _meta; stages keep the query's declared schema"
    return "model_checking", results, info, ASSUMPTIONS
