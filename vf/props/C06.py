"""C06 - reported partition structure (npartitions, divisions, lengths) is truthful."""
from .. import pfam, prun, kcollect
from ..common import seed

ASSUMPTIONS = [
    "K: CrossHair on the real _divisions/_layer/_task of partition-selecting, slicing, fusing and repartitioning operators with symbolic division values and tracked rows",
    "P: sources declare divisions (the user's assertion, assumed truthful and sorted inside partitions: constraints on the symbolic index labels); every other node that reports "
    "known divisions must contain its computed rows, for all index labels - checked on the unoptimised and the fused plan of every program of family F06",
    "len() / size / per-partition lengths answered from metadata (Len._simplify_down, Size._simplify_down, Lengths._simplify_down, FromPandas._simplify_up/_get_lengths) are "
    "proved equal to the row counts the unoptimised plan computes, for all data, over operator chains, partition-filtered sources, concat and merge",
    "outside: string/datetime divisions, quantile-based set_index divisions, parquet statistics beyond the K harness of C18",
]


def run(tier, only=None):
    from families import f06

    krs, kinfo = kcollect.run("C06", tier, only, modules=["k_divisions", "k_pqstats", "k_layers", "k_setindex"] if tier == "quick" else None)
    progs = f06.programs(tier)
    results, info = pfam.run(progs, prun.check_divisions, only)
    lr, linfo = pfam.run(f06.length_programs(tier), lambda p: prun.check_stage_equiv(p, stages=["simplified-logical", "fused"], validate=1), only)
    info["length_obligations"] = linfo.get("p_status_counts")
    info["programs"] = info.get("programs", 0) + linfo.get("programs", 0)
    results = krs + results + lr
    info.update(kinfo)
    info["states"] = max(1, len(results))
    info["transitions"] = max(1, sum(r.queries for r in results))
    info["traces_validated_against_impl"] = info.get("disagreements_checked", 0)
    info["rule"] = "K: one CrossHair condition per operator and size; P: one obligation per (program, plan): all rows of all nodes with derived known divisions lie inside them"
    return "model_checking", results, info, ASSUMPTIONS
