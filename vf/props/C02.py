"""C02 - results equal the pandas meaning of the query for every partitioning."""
from .. import pfam, prun, kcollect
from ..common import seed

ASSUMPTIONS = [
    "reference semantics = the same program text applied to the unpartitioned symbolic table (symdf's model of pandas), itself validated against real pandas on seeded "
    "tables for every program (translator validation); counterexamples are replayed against real pandas and real compute",
    "every cut of n rows into partitions (all 2^(n-1) compositions, n = 4 quick / 5 thorough) plus empty partitions, known (symbolic index labels inside declared divisions, "
    "sorted inside a partition) and unknown divisions, independent layouts for the two inputs of binary operations",
    "explicit refusals (NotImplementedError / ValueError) are accepted; any other exception where pandas computes a value is a violation",
    "K: the 'already sorted' decision of sort_values / set_index (_calculate_divisions) under CrossHair with the computed minima / maxima as symbolic environment values",
    "outside: groupby-apply/transform UDFs, time-based / centred rolling windows (fixed-size trailing windows with sum, mean, count, min, max are modelled), merge_asof, resample, quantile-based sort/set_index (data-dependent planning), strings/categoricals/datetimes, float rounding",
]


def run(tier, only=None):
    from families import f02

    progs = f02.programs(tier)
    results, info = pfam.run(progs, prun.check_reference, only)
    krs, kinfo = kcollect.run("C02", tier, only, modules=["k_setindex"])
    results = krs + results
    info.update(kinfo)
    info["rule"] = "one obligation per (query, layout): z3 decides optimised-plan result == unpartitioned reference for all table contents (and index labels); non-trivial = decided by the solver"
    return "translation_validation", results, info, ASSUMPTIONS
