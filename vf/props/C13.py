"""C13 - repartitioning preserves rows and order and honours the requested layout."""
from .. import kcollect


def run(tier, only=None):
    results, info = kcollect.run("C13", tier, only)
    try:
        from ..smtlemma import run_lemma
        results += run_lemma(tier, only)
    except ImportError:
        pass
    try:
        from ..pfam import run_family
        pr, pinfo = run_family("C13", tier, only)
        results += pr
        info.update(pinfo)
    except ImportError:
        pass
    cov = {
        "states": sum(1 for r in results),
        "transitions": sum(r.queries for r in results),
        "traces_validated_against_impl": sum(1 for r in results if r.status in ("violation",)),
        "samples": kcollect.samples(results),
        **info,
    }
    assumptions = [
        "boundary_slice(df, lo, hi, right) keeps exactly rows with lo <= idx < hi (<= hi when right) in original order (pandas/dask leaf, trusted)",
        "methods.concat / _concat append their inputs in list order (trusted)",
        "input divisions are truthful and partitions are sorted by index",
        "CrossHair's path exploration is exhaustive when it reports 'Confirmed over all paths'",
    ]
    return "model_checking", results, cov, assumptions
