"""C13 - repartitioning preserves rows and order and honours the requested layout."""
from .. import kcollect


def run(tier, only=None):
    results, info = kcollect.run("C13", tier, only)
    try:
        from ..smtlemma import run_lemma
        results += run_lemma(tier, only)
    except ImportError:
        pass
    from .. import pfam, prun
    from families import f06

    progs = [p for p in f06.programs(tier) if any(t in p.text for t in ("repartition", "L.a + R.a", "[['a']] + R", "assign(z=R.a)"))]
    pr, pinfo = pfam.run(progs, lambda p: prun.check_reference(p, validate=1) + prun.check_divisions(p), only)
    results += pr
    info.update({k: v for k, v in pinfo.items() if k != "samples"})
    cov = {
        "states": sum(1 for r in results),
        "transitions": sum(r.queries for r in results),
        "traces_validated_against_impl": sum(1 for r in results if r.status in ("violation",)),
        "samples": kcollect.samples(results),
        **info,
    }
    assumptions = [
        "boundary_slice(df, lo, hi, right) keeps exactly rows with lo <= idx < hi (<= hi when right) in original order (pandas/dask leaf, trusted)",
        "methods.concat / _concat append their inputs in list order (trusted)",
        "input divisions are truthful and partitions are sorted by index",
        "CrossHair's path exploration is exhaustive when it reports 'Confirmed over all paths'",
        "P: end-to-end repartition(divisions= / npartitions=) and aligned binary operations on sources with symbolic index labels (duplicates across borders, empty partitions): "
        "output rows sequence-equal to the unpartitioned reference and inside the new divisions, for all labels",
    ]
    return "model_checking", results, cov, assumptions
