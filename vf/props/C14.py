"""C14 - blockwise fusion only changes task granularity."""
from .. import pfam, prun
from ..common import seed

ASSUMPTIONS = [
    "models of pandas/dask leaf callables in symdf/ (translator-validated in C01 runs)",
    "oracle: optimize(fuse=False); compared partition by partition, order-sensitively; npartitions, divisions, meta labels/dtypes compared concretely",
    "bounds: <= 5 rows per input, <= 3 partitions, partitionwise DAG families of depth <= 3",
]


def run(tier, only=None):
    from families import f14

    progs = f14.programs(tier)
    results, info = pfam.run(progs, prun.check_fusion, only)
    info["rule"] = "one obligation per program: every output partition of the fused plan is sequence-equal to the same partition of the unfused plan for all data; non-trivial = fusion changed the plan"
    return "translation_validation", results, info, ASSUMPTIONS
