"""C18 - parquet reads with pushed-down work equal reading everything (decidable part: filter conversion, statistics, bucket bookkeeping)."""
from .. import kcollect, pqfilters

ASSUMPTIONS = [
    "Arrow's documented row-filter semantics: a comparison with null is null, a row is kept iff some conjunction of the DNF is entirely true; pandas: NaN != c is True, every other "
    "comparison with NaN is False",
    "the reader itself (Arrow C++), the write/read round trip, fsspec vs arrow filesystem behaviour and the overwrite guard need files and are OUTSIDE the claim; "
    "counterexample replays do write and read real parquet files under /verif/.work",
    "statistics: per-file / per-row-group num_rows, min, max symbolic (aggregation) or swept exhaustively over a small ordered domain (divisions from statistics: pandas inside)",
]


def run(tier, only=None):
    results = pqfilters.run(tier) if not only or "filter" in only else []
    krs, info = kcollect.run("C18", tier, only)
    results += krs
    info["states"] = max(1, len(results))
    info["transitions"] = max(1, sum(r.queries for r in results))
    info["traces_validated_against_impl"] = sum(1 for r in results if r.status == "violation")
    info["samples"] = kcollect.samples(results)
    for r in results:
        if r.name.startswith("pq.filters"):
            info["filter_trees"] = r.extra.get("trees")
            info["filter_trees_pushed_and_proved"] = r.extra.get("pushed")
    return "model_checking", results, info, ASSUMPTIONS
