"""C10 - execution knobs change performance only, never results."""
from .. import prun
from ..common import seed

ASSUMPTIONS = [
    "oracle: the same query at default knobs; compared up to row order and partition layout for all table contents (one symbolic optional row per partition, 1..9 partitions)",
    "symdf leaf models, uninterpreted hash; tasks/simple shuffles only: shuffle_method='disk' (partd I/O), p2p, upsample / quantile sampling are outside the claim",
    "the run asserts that both regions of every algorithm-selection threshold were produced (tree vs shuffle reduction, staged vs single-stage shuffle, broadcast vs hash join), "
    "otherwise it is inconclusive",
]


def _one(item):
    prog, variant, tag = item
    rs = prun.check_two_programs(prog, variant, "knobs")
    for r in rs:
        r.extra["tag"] = tag
    return rs


def run(tier, only=None):
    from families import f10
    from ..pfam import summarise
    from ..common import Result, INCONCLUSIVE

    items = f10.pairs(tier)
    if only:
        import re

        def hit(i):
            if only in i[1] or only in i[2]:
                return True
            try:
                return re.search(only, i[1] + " " + i[2]) is not None
            except re.error:
                return False

        items = [i for i in items if hit(i)]
    if tier == "quick" and len(items) > 1600:
        step = len(items) / 1600.0
        items = [items[int(i * step)] for i in range(1600)]
    results = prun.run_programs(items, _one)
    info = summarise([i[0] for i in items], results, 0)
    classes = set()
    for r in results:
        classes |= set(r.extra.get("plan_classes", []))
    # ShuffleReduce lowers away: its trace is an Aggregate over a shuffle
    need = {"TreeReduce", "Aggregate", "TaskShuffle", "BroadcastJoin", "BlockwiseMerge"}
    missing = [c for c in need if c not in classes]
    info["algorithm_classes_seen"] = sorted(classes)[:80]
    if missing and not only:
        results.append(Result("threshold-coverage", INCONCLUSIVE, "", f"algorithm variants never produced by the grid: {missing}"))
    info["rule"] = "one obligation per (query, knob value, partition count): z3 decides variant == default result for all table contents; non-trivial = the plans differ"
    return "translation_validation", results, info, ASSUMPTIONS
