"""C19 - optimization terminates, is deterministic and idempotent (decidable part: idempotence for all data; convergence driver)."""
from .. import pfam, prun, kcollect
from ..common import seed

ASSUMPTIONS = [
    "idempotence is decided for all data on the bounded family F01; termination of the rule system on all programs is outside the claim "
    "(a non-converging program in the family surfaces as a planning failure)",
    "by-product (concrete, not solver-based): plan and task names of seven optimised queries are identical in subprocesses with different PYTHONHASHSEED values",
    "convergence drivers (Expr.simplify / rewrite / lower_completely / fusion loop) are model-checked on stub nodes with symbolic rewrite sequences (engine K)",
]


def run(tier, only=None):
    from families import f01

    progs = f01.all_programs(tier)
    progs = f01.select(progs, "quick", seed() + 1, 120 if tier == "quick" else 2500)
    # rule pairs that undo each other live around joins: filters over merges in every legal / illegal placement
    from families import f03

    joins = [p for p in f03.programs(tier) if ".merge(" in p.text]
    multi = [p for p in joins if "two-filters" in p.note]
    progs += f01.select([p for p in joins if "two-filters" not in p.note], "quick", seed() + 7, 150 if tier == "quick" else 2000) + (multi if tier != "quick" else multi[: len(multi) // 2])
    results, info = pfam.run(progs, prun.check_idempotent, only)
    # nested optimize(): every head collection optimised first, the continuation built on the optimised collection
    from .. import pcut
    from ..common import match_only

    cfgs = pcut.configs(tier, cuts=("optimize", "optimize-nofuse"))
    cfgs = [c for c in cfgs if match_only(only, pcut._name(c), c["htag"])]
    results += prun.run_programs(cfgs, pcut.check)
    krs, kinfo = kcollect.run("C19", tier, only)
    results += krs
    if not only or "hashseed" in only:
        from .. import hashseed

        results += hashseed.run(tier)
    info.update(kinfo)
    info["states"] = max(1, len(results))
    info["transitions"] = max(1, sum(r.queries for r in results))
    info["traces_validated_against_impl"] = info.get("disagreements_checked", 0)
    return "model_checking", results, info, ASSUMPTIONS
