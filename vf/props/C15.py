"""C15 - planner caches are transparent (decidable part: cache-key completeness and eviction safety under short histories)."""
from .. import kcollect

ASSUMPTIONS = [
    "the expensive computation behind each memoising function is replaced by a stub whose result is an injective function of exactly the arguments it depends on",
    "histories: <= 3-5 operations; capacities 1..3 (the real LRU class, the real memoising functions); symbolic dict keys are beyond CrossHair, so key histories are "
    "enumerated exhaustively where stated, the eviction / environment state of the set_index divisions cache is symbolic",
    "OUTSIDE the claim: the process-wide Expr._instances weak table, garbage collection, injected task failures, parquet plan/statistics caches, dataset rewrites - they need "
    "real process histories",
]


def run(tier, only=None):
    results, info = kcollect.run("C15", tier, only)
    info["states"] = max(1, len(results))
    info["transitions"] = max(1, sum(r.queries for r in results))
    info["traces_validated_against_impl"] = sum(1 for r in results if r.status == "violation")
    info["samples"] = kcollect.samples(results)
    return "model_checking", results, info, ASSUMPTIONS
