"""C09 - task graphs are closed, acyclic, unambiguous and free of planner objects."""
from .. import pfam, prun, kcollect
from ..common import seed

ASSUMPTIONS = [
    "K: the hand-written multi-key layer generators run under CrossHair with symbolic size parameters (range(n) forks = bounded unrolling); generators whose arithmetic uses "
    "floats or builds dict keys from the parameters are swept exhaustively instead (no symbolic variable; stated per obligation)",
    "P by-product: the structure of every materialised graph of the program families (every optimiser stage, fused sub-graphs recursively, partition-filtered sources, "
    "from_graph / from_delayed imports) - structural, no data involved; the same graphs are executed by the symbolic interpreter in the other checks, which raises on an "
    "undefined key or a cycle",
    "F09 sibling programs: two or more instances of one operator over the same input that differ in one parameter, evaluated in one graph (key ambiguity between "
    "expressions, which a single instance can never show)",
    "outside: DiskShuffle / P2P layers (uuid keys, distributed), pickling itself",
]


def run(tier, only=None):
    from families import f01, f09, f14
    from .. import pselect
    from ..prun import Program, Src

    krs, kinfo = kcollect.run("C09", tier, only, modules=["k_layers", "k_repart", "k_divisions", "k_keys"])
    progs = f01.select(f01.all_programs(tier), "quick", seed() + 3, 150 if tier == "quick" else 2000) + f14.programs(tier) + f09.programs(tier)
    # graphs imported via from_map / from_delayed / from_graph and partition-filtered sources
    import dask_expr as dx
    for sname, src in pselect.sources(tier):
        for text, tag in pselect.QUERIES[:9] + [q for q in pselect.QUERIES if q[1].startswith(("window", "loc", "cumulative", "head", "tail"))]:
            if src.how == "array" and any(c in text for c in ("'b'", ".b", "fillna")):
                continue
            progs.append(Program(text, [src], family="F11", note=tag, env_globals={"dx": dx}))
            progs.append(Program(f"({text}).partitions[[1, 0]]" if not tag.startswith(("head", "tail")) else f"({text}).partitions[[0]]", [src], family="F11", note=tag + "/filtered", env_globals={"dx": dx}))
            # the same query over a partition-filtered input (selection first)
            progs.append(Program(text.replace("X", "X.partitions[[1, 2]]"), [src], family="F11", note=tag + "/prefiltered", env_globals={"dx": dx}))
    # user functions with collection-valued arguments (positional: expression operands; keyword: must not end up inside the tasks)
    L9 = Src("X", 6, {"a": "i", "b": "f", "c": "i"}, 3)
    for text in ("X.map_partitions(lambda d, y: d + y, X.a.sum())", "X.map_partitions(lambda d, y=None: d + y, y=X.a.sum())", "X.a.map_partitions(lambda s, o: s + o, X.c)",
                 "X.map_partitions(lambda d, k=1: d + k, k=2)", "X.assign(z=X.a.sum())", "X.a.apply(lambda v, k: v + k, args=(1,), meta=('a', 'i8'))"):
        progs.append(Program(text, [L9], family="F09", note="user-function-arguments", env_globals={"dx": dx}))
    results, info = pfam.run(progs, prun.check_graphs, only)
    results = krs + results
    info.update(kinfo)
    info["states"] = max(1, sum(r.extra.get("keys", 0) for r in results))
    info["transitions"] = max(1, len(results))
    info["traces_validated_against_impl"] = 0
    info["graphs_checked"] = sum(1 for r in results if "keys" in r.extra)
    info["rule"] = "one obligation per (program, optimiser stage) graph and per layer generator; structural"
    return "model_checking", results, info, ASSUMPTIONS
