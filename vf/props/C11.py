"""C11 - selecting partitions or leading/trailing rows commutes with the computation."""
from .. import prun, pselect, kcollect
from ..common import seed

ASSUMPTIONS = [
    "in-memory sources only (from_pandas, from_array, from_map, from_delayed, from_graph); csv/parquet/timeseries sources need file I/O / RNG (parquet partition logic: C18)",
    "oracle: the partitions of the fully computed (optimised) collection, compared partition by partition and in row order (as multisets after shuffles / joins)",
    "head(n, npartitions=k) = first n rows of the concatenated first k partitions; tail(n) = last n rows of the last partition (the documented dask semantics)",
    "symdf leaf models; <= 6 rows, <= 4 partitions, partition lists of length <= 3 (+ full and reversed)",
]


def run(tier, only=None):
    from ..common import match_only

    cfgs = pselect._cfgs(tier)
    if only:
        cfgs = [c for c in cfgs if match_only(only, pselect._name(c), c[3])]
    if tier == "quick" and len(cfgs) > 1500:
        step = len(cfgs) / 1500.0
        cfgs = [cfgs[int(i * step)] for i in range(1500)]
    results = prun.run_programs(cfgs, pselect.check)
    krs, kinfo = kcollect.run("C11", tier, only)
    results += krs
    from ..pfam import summarise

    info = summarise(cfgs, results, 0)
    info.update(kinfo)
    info["rule"] = ("one obligation per (source kind, query, selection): z3 decides selected partitions == the corresponding partitions of the full computation for all table "
                    "contents; selection failures are replayed")
    return "translation_validation", results, info, ASSUMPTIONS
