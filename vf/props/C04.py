"""C04 - column pruning never changes a result."""
from .. import pfam, prun
from ..common import seed

ASSUMPTIONS = [
    "symdf leaf models; (a) optimised == unoptimised incl. labels and their order, a task reading a missing/duplicated column is a structural failure; "
    "(b) widening: sources with two extra never-mentioned columns (free symbolic cells) give the same result as the original sources",
    "bounds: <= 5 rows/input, <= 3 partitions, <= 3 selected columns, operator depth <= 1 (quick) / 2 (thorough) before the selection",
]


def _both(p):
    return prun.check_stage_equiv(p, stages=["simplified-logical", "simplified-physical", "fused"], validate=1) + prun.check_widening(p)


def run(tier, only=None):
    from families import f04

    progs = f04.programs(tier)
    results, info = pfam.run(progs, _both, only)
    info["rule"] = "per program: 3 stage obligations (a) + 1 widening obligation (b), all decided by z3 for all table contents"
    return "translation_validation", results, info, ASSUMPTIONS
