"""C05 - tasks never modify their inputs; the result does not depend on the evaluation order (restricted, see ASSUMPTIONS)."""
from .. import pfam, prun, pmut
from ..common import seed

ASSUMPTIONS = [
    "claimed part: dask-expr's own task functions (assign, _SetIndexPost.operation, AssignPartitioningIndex.operation, Reduction.chunk/combine/aggregate, "
    "RenameFrame.operation, Fused sub-graphs, ...) run for real on mutable symbolic containers; an argument whose identity changes across a task call is a mutation "
    "for every table content; forward and reverse dependency-respecting evaluation orders are proved equal by z3",
    "pandas / dask leaf callables are modelled as pure; their purity is only observed concretely (by-product: arguments hashed before / after every real task on the "
    "default tables), as are repeated computes and the isolation of the user's source objects",
    "outside: thread interleavings inside pandas C code, the disk shuffle (partd files, barrier), user functions other than the fixed templates, p2p",
    "bounds: <= 5 rows per input, <= 3 partitions, the C01 / C14 / C10 program families (quick: a slice)",
]


def programs(tier):
    from families import f01, f14, f05

    progs = list(f05.programs(tier))
    a = f01.all_programs(tier)
    progs += f01.select(a, "quick", seed(), 90 if tier == "quick" else 600)
    progs += f14.programs(tier)[: (40 if tier == "quick" else 10 ** 6)]
    seen, out = set(), []
    for p in progs:
        if p.name not in seen:
            seen.add(p.name)
            out.append(p)
    return out


def run(tier, only=None):
    progs = programs(tier)
    results, info = pfam.run(progs, pmut.check_mutation, only)
    for kind in ("frame", "frame-unsorted", "frame-nosort", "series", "frame-1part", "numpy-buffer", "numpy-buffer-series"):
        if only and only not in f"source-isolation({kind})":
            continue
        results += pmut.check_source_isolation(kind)
    info["states"] = max(1, len([r for r in results if r.status == "held"]))  # (program, evaluation order) pairs executed symbolically
    info["transitions"] = max(1, sum(int(r.detail.split(" task calls")[0]) for r in results if r.status == "held" and r.name.endswith("|no-mutation") and r.detail.split(" task calls")[0].isdigit()))  # task calls watched by the identity oracle
    info["traces_validated_against_impl"] = len([r for r in results if r.name.endswith("|concrete-purity") and r.status == "held"])
    info["rule"] = ("per program: (no-mutation) symbolic execution of the real fused plan with argument identities compared across every task call; (order) z3: forward "
                    "and reverse evaluation orders give the same partitions for all data; (concrete-purity) labelled by-product on the default tables")
    return "model_checking", results, info, ASSUMPTIONS
