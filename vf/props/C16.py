"""C16 - collections survive serialization (decidable part: metadata must not depend on process-global state)."""
from .. import kcollect

ASSUMPTIONS = [
    "the receiving process is modelled by re-constructing the expression from (type, operands) - what Expr.__reduce__ transmits - with every module-level cache in an "
    "arbitrary admissible state (emptied, or churned by unrelated insertions): a symbolic environment",
    "covered readers of module-level caches: _SetIndexPost._divisions (divisions_lru), _get_divisions, _get_mem_usages (C15 harnesses show a miss recomputes)",
    "by-product (concrete, no solver): every form (logical / optimised / lowered) of the F01 family and of quantile-planned set_index / sort_values queries is pickled, all "
    "module caches and the singleton table are emptied, and the unpickled collection must agree in name, schema, divisions and result",
    "by-product (concrete): a set of collections (in-memory, quantile-planned, parquet-backed through a relative path) is unpickled by a fresh interpreter with another working directory and hash seed and must agree with the sender",
    "OUTSIDE the claim: the pickle byte-level round trip, _BackendData.__reduce__, FragmentWrapper packing (C code); the public-API replay of a counterexample does use pickle",
]


def run(tier, only=None):
    from .. import pfam, prun
    from ..common import seed
    from ..prun import Program, Src
    from families import f01

    results, info = kcollect.run("C16", tier, only)
    progs = f01.select(f01.all_programs(tier), "quick", seed() + 5, 80 if tier == "quick" else 1000)
    # data-dependent planning (quantile divisions) is where process-global state enters: concrete tag data suffices here
    K = {"a": "i", "b": "f", "c": "i"}
    for text in ("L.set_index('a')", "L.set_index('a').b.sum()", "L.sort_values('a')", "L.set_index('c')[['a']]", "L.sort_values('c').a", "L.set_index('a', npartitions=2)",
                 "L.set_index('a').reset_index()", "L.repartition(partition_size='1kB')" ):
        progs.append(Program(text, [Src("L", 6, K, 3)], ordered=False, family="F16", note="data-dependent-planning"))
    # sources built from frames whose index is not sorted (from_pandas sorts; what is shipped must be what was named)
    for text in ("L", "L + 1", "L[L.a > 1].b", "L.a.sum()", "L.set_index('a', divisions=[-100, 0, 100])", "L.merge(L, on='a')"):
        progs.append(Program(text, [Src("L", 6, K, 3, index=(4, 0, 5, 2, 1, 3))], ordered=False, family="F16", note="unsorted-source"))
        progs.append(Program(text, [Src("L", 6, K, 2, index=(4, 0, 5, 2, 1, 3), sort=False)], ordered=False, family="F16", note="unsorted-source-nosort"))
    pr, pinfo = pfam.run(progs, prun.check_reconstruct, only)
    results += pr
    if not only or "crossproc" in only:
        from .. import crossproc

        results += crossproc.run(tier)
    info.update({k: v for k, v in pinfo.items() if k not in ("samples",)})
    info["states"] = max(1, len(results))
    info["transitions"] = max(1, sum(r.queries for r in results))
    info["traces_validated_against_impl"] = sum(1 for r in results if r.status == "violation")
    info["samples"] = kcollect.samples(results)
    return "model_checking", results, info, ASSUMPTIONS
