"""C12 - a shuffle is a permutation that co-locates equal keys consistently across frames."""
from .. import pfam, prun, pshuffle
from ..common import seed

ASSUMPTIONS = [
    "the hash is an uninterpreted function of the key values after the float64 cast that RearrangeByColumn._lower attaches to numeric keys: equal float64 values hash alike "
    "(pandas' hash_object is C code and assumed to be a function of the value)",
    "one symbolic optional row per input partition (valid bit, key, payload symbolic): an arbitrary row in every input partition; rows of one partition are routed independently "
    "by shuffle_group, so one row per partition exercises every route of the graph",
    "group_split / concat leaf semantics (symdf models); disk and p2p shuffles, string/categorical key hashing outside the claim",
]


def run(tier, only=None):
    cfgs = pshuffle.configs(tier)
    if only:
        cfgs = [c for c in cfgs if only in pshuffle._name(c)]
    results = prun.run_programs(cfgs, pshuffle.check)
    if not only or "cross" in only:
        results += pshuffle.check_cross_frame(tier)
    held = [r for r in results if r.status == "held"]
    info = {
        "states": max(1, len(results)),
        "transitions": max(1, sum(r.extra.get("slots", 0) for r in results)),
        "traces_validated_against_impl": sum(1 for r in results if r.status in ("violation", "harness_error")),
        "configurations": len(cfgs),
        "samples": [{"obligation": r.name, "status": r.status, "detail": r.detail[:160]} for r in (held[:4] + [r for r in results if r.status != "held"][:4])] or [{"note": "none"}],
        "rule": "one obligation set per (n_in, n_out, max_branch, method, ignore_index, key, output subset): every present row appears exactly once in exactly the output its "
                "assigned partition number names, payload unchanged, and the assignment is a function of the key alone; exhaustive over the stated grid",
        "exhaustive": True,
        "p_real_callables_executed_symbolically": sorted({c for r in results for c in r.extra.get("callables", [])}),
        "p_status_counts": {k: sum(1 for r in results if r.status == k) for k in {r.status for r in results}},
    }
    return "model_checking", results, info, ASSUMPTIONS
