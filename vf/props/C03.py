"""C03 - a filter keeps exactly the rows that satisfy the user's predicate."""
from .. import pfam, prun, proplogic
from ..common import seed

ASSUMPTIONS = [
    "C03.1 propositional: atoms are opaque Booleans; the rewriting functions only restructure And/Or trees (a leaf that is not an input atom is reported)",
    "C03.2 relocation: symdf leaf models; oracle = predicate evaluated on the unfiltered data by the unoptimised lowered plan; nulls in float columns; "
    "<= 5 rows/input, <= 3 partitions",
    "reader-side (parquet) filters are covered by C18",
]


def run(tier, only=None):
    from families import f03

    results = [] if only and "prop" not in only else proplogic.run(tier)
    progs = f03.programs(tier)
    stages = ["simplified-logical", "fused"] if tier == "quick" else prun.STAGES
    pr, info = pfam.run(progs, lambda p: prun.check_stage_equiv(p, stages=stages, validate=1), only)
    results += pr
    info["rule"] = ("propositional: z3 decides in<=>out for every tree the real rewrite_filters changes; relocation: z3 decides optimised == unoptimised "
                    "row sets per (program, stage); non-trivial = the plans differ")
    for r in results:
        if r.name == "prop.rewrite_filters":
            info["propositional_trees"] = r.extra.get("trees")
            info["propositional_rewritten_and_proved"] = r.extra.get("rewritten")
            info["samples"] = (r.extra.get("samples") or []) + info.get("samples", [])
    return "translation_validation", results, info, ASSUMPTIONS
