"""C08 - expression names are deterministic and collision-free (decidable part: every class-specific name identifies every
operand; the digest function itself is assumed injective and deterministic)."""
from .. import kcollect
from ..common import HELD, VIOLATION, SKIPPED, Result, match_only

ASSUMPTIONS = [
    "K (decided by CrossHair / z3 over all operand values): for every class that overrides `_name` (Expr, Blockwise, MapPartitions, FromGraph, FromDelayed, FromMap, "
    "FromPandasDivisions, FusedIO, TreeReduce, CustomReduction, ReadParquet) and for the fusion grouping key `_tokenize_partial`, two expressions get equal names only if "
    "every operand is equal - with `_tokenize_deterministic` replaced by an injective stand-in that keeps its arguments",
    "ASSUMED, not decided: dask.base.tokenize (md5 over pickles / normalize_token of pandas and numpy objects, C code) is injective and deterministic across processes - no "
    "symbolic variable exists for a digest collision",
    "by-products (concrete, no solver, labelled as such): (a) one-parameter variations of every operator template of family F09 get different names, the same query built twice "
    "gets the same name, logical and optimised; (b) equal-looking sources with one differing cell get different names, equal data the same name; (c) optimised plan names and task "
    "keys are identical in subprocesses with different PYTHONHASHSEED values",
    "outside: Fused._name (f-string over the member names), _DelayedExpr._name (the Delayed key), construction-order effects of the singleton table",
]


def _variations(tier, only):
    """by-product (a) and (b): names of one-parameter variations differ, repetitions agree"""
    import warnings

    import dask
    import pandas as pd

    import dask_expr as dx
    from families import f09

    warnings.simplefilter("ignore")
    out = []
    with dask.config.set({"dataframe.convert-string": False, "dataframe.shuffle.method": "tasks"}):
        pdf = pd.DataFrame({"a": [1, 2, 3, 4, 5, 6], "b": [1.0, None, 3.0, 4.0, 5.0, 6.0], "c": [6, 5, 4, 3, 2, 1]})
        r = pd.DataFrame({"a": [1, 2, 9], "e": [10, 20, 30]})

        def build(text, frame=pdf):
            env = {"X": dx.from_pandas(frame, npartitions=3), "R": dx.from_pandas(r, npartitions=2), "dx": dx}
            return eval(text, env)

        for tmpl, params in f09.SIBLINGS:
            if "pivot_table" in tmpl or "lambda" in tmpl or "sample" in tmpl:
                continue  # lambdas have no deterministic token (a fresh function object per build)
            texts = [tmpl.format(p=p).replace("HI", "5") for p in params]
            name = f"names.variations:{tmpl}"
            if not match_only(only, name):
                continue
            try:
                qs = [build(t) for t in texts]
                again = [build(t) for t in texts]
                names = [q.expr._name for q in qs]
                onames = [q.optimize().expr._name if hasattr(q, "optimize") else None for q in qs]
                onames2 = [q.optimize().expr._name if hasattr(q, "optimize") else None for q in again]
            except Exception as e:
                out.append(Result(name, SKIPPED, "", f"template does not build: {type(e).__name__}: {str(e)[:120]}"))
                continue
            msg = None
            if len(set(names)) != len(names):
                msg = f"two variations share the logical name: {dict(zip(texts, names))}"
            elif names != [q.expr._name for q in again]:
                msg = "the same query built twice gets different logical names"
            elif onames != onames2:
                msg = "the same query optimised twice gets different plan names"
            if msg:
                out.append(Result(name, VIOLATION, name, msg, {"engine": "X", "kind": "names", "template": tmpl}))
            else:
                out.append(Result(name, HELD, "", f"{len(texts)} variations: distinct names, repeatable (concrete by-product)", extra={"trivial": True}))
        name = "names.data"
        if match_only(only, name):
            pdf2 = pdf.copy()
            pdf2.loc[3, "c"] = 99
            n1, n1b, n2 = build("X").expr._name, build("X", pdf.copy()).expr._name, build("X", pdf2).expr._name
            s1, s2 = build("(X + 1).a.sum()").optimize().expr._name, build("(X + 1).a.sum()", pdf2).optimize().expr._name
            if n1 != n1b:
                out.append(Result(name, VIOLATION, name, "from_pandas of equal data gets different names", {"engine": "X", "kind": "names"}))
            elif n1 == n2 or s1 == s2:
                out.append(Result(name, VIOLATION, name, "sources that differ in one cell share a name", {"engine": "X", "kind": "names"}))
            else:
                out.append(Result(name, HELD, "", "equal data: same source name; one differing cell: different source and plan names (concrete by-product)", extra={"trivial": True}))
    return out


def run(tier, only=None):
    results, info = kcollect.run("C08", tier, only)
    results += _variations(tier, only)
    # two instances of one operator that differ in one parameter, in one graph: no key may carry two different tasks (structural by-product, shared with C09)
    from families import f09
    from .. import pfam, prun

    gr, _ = pfam.run(f09.programs(tier), prun.check_graphs, only)
    results += [r for r in gr if r.status != VIOLATION or r.signature.endswith("ambiguous-key")]
    if not only or "hashseed" in only:
        from .. import hashseed

        results += hashseed.run(tier)
    info["states"] = max(1, len(results))
    info["transitions"] = max(1, sum(r.queries for r in results))
    info["traces_validated_against_impl"] = sum(1 for r in results if r.status == "violation")
    info["samples"] = kcollect.samples(results)
    info["rule"] = "K: one CrossHair condition per name-building method (injectivity in the operands); by-products: one obligation per operator template / data pair / hash-seed set"
    return "model_checking", results, info, ASSUMPTIONS
