"""C01 - optimization never changes what a query computes (every stage vs the unoptimised lowered plan)."""
from .. import pfam, prun
from ..common import seed

ASSUMPTIONS = [
    "models of pandas/dask leaf callables in symdf/ (validated against real execution on seeded tables per program: translator validation)",
    "numbers are mathematical integers; float columns hold integer values or NaN; / // % ** are uninterpreted; hash is an uninterpreted function",
    "bounds: <= 5 source rows per input, <= 3 partitions, operator depth <= 2 (quick) / 3 (thorough); strings, categoricals, datetimes, "
    "data-dependent planning (quantile divisions), disk/p2p shuffles outside the claim",
    "programs whose plan contains an unmodelled operation are skipped and reported, never counted as held",
]


def run(tier, only=None):
    from families import f01

    progs = f01.all_programs(tier)
    progs = f01.select(progs, "quick", seed(), 260 if tier == "quick" else 6000)
    results, info = pfam.run(progs, prun.check_stage_equiv, only)
    info["rule"] = "one obligation per (program, optimiser stage): z3 decides stage-plan == unoptimised-plan for all table contents; non-trivial = plans differ structurally"
    info["bounds"] = "rows<=5, partitions<=3, depth<=2/3"
    return "translation_validation", results, info, ASSUMPTIONS
