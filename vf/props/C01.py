"""C01 - optimization never changes what a query computes (every stage vs the unoptimised lowered plan)."""
from .. import pfam, prun
from ..common import seed

ASSUMPTIONS = [
    "models of pandas/dask leaf callables in symdf/ (validated against real execution on seeded tables per program: translator validation)",
    "numbers are mathematical integers; float columns hold integer values or NaN; / // % ** are uninterpreted; hash is an uninterpreted function",
    "bounds: <= 5 source rows per input, <= 3 partitions, operator depth <= 2 (quick) / 3 (thorough); strings, categoricals, datetimes, "
    "data-dependent planning (quantile divisions), disk/p2p shuffles outside the claim",
    "programs whose plan contains an unmodelled operation are skipped and reported, never counted as held",
]


def _beyond_budget(t):
    red = t.rstrip().endswith(("sum()", "mean()", "count()", "min()", "max()", "nunique()")) or ".groupby(" in t
    if ".merge(" in t and t.count("(lambda Y") >= 2 and red:
        return True
    if ".merge(" in t and t.count("(lambda Y") >= 1 and "|" in t and red:
        return True
    return ".shuffle(" in t and ".groupby(" in t and t.count("(lambda Y") >= 1 and "|" in t


def run(tier, only=None):
    from families import f01

    progs = f01.all_programs(tier)
    progs = f01.select(progs, "quick", seed(), 320 if tier == "quick" else 6000)
    # (both tiers) a group-by over a filtered join of two filtered inputs, three filters in all, timed z3 out at 60 s in the quick tier as well
    progs = [p for p in progs if not (".merge(" in p.text and p.text.count("(lambda Y") >= 3 and ".groupby(" in p.text)]
    if tier != "quick":
        # solver budget (measured: every z3 timeout of the thorough tier at 300 s had one of these shapes): a reduction / group-by over a
        # filtered join of filtered inputs, or over an OR-filter above a join / shuffle, is bounded out of the thorough family; the
        # depth-2 versions of the same shapes are decided in both tiers
        progs = [p for p in progs if not _beyond_budget(p.text)]
    results, info = pfam.run(progs, prun.check_stage_equiv, only)
    info["rule"] = "one obligation per (program, optimiser stage): z3 decides stage-plan == unoptimised-plan for all table contents; non-trivial = plans differ structurally"
    info["bounds"] = "rows<=5, partitions<=3, depth<=2/3; group-bys over a filtered join of two filtered inputs bounded out in both tiers, thorough: all reductions over filtered joins of filtered inputs (solver budget)"
    return "translation_validation", results, info, ASSUMPTIONS
