"""C17 - materialization boundaries are transparent."""
from .. import prun, pcut, kcollect
from ..common import seed

ASSUMPTIONS = [
    "persist(): the scheduler run is replaced by the symbolic executor - the real __dask_postpersist__ rebuild (from_graph, FromGraph._layer key aliasing) is applied to the "
    "dict of symbolically computed partition values of the optimised head",
    "to_delayed()/from_delayed(meta, divisions) and to_legacy_dataframe()/from_legacy_dataframe() run for real (legacy graph optimisation only restructures tasks); the "
    "resulting graphs are interpreted symbolically",
    "K: the names of graph-backed / delayed sources identify every operand (divisions included): two imports that differ anywhere get different names (singleton table, task keys)",
    "oracle: the uncut query; final result, schema (labels/kind) and divisions compared; symdf leaf models; <=5 rows, <=3 partitions; distributed outside",
]


def run(tier, only=None):
    from ..common import match_only

    from ..pfam import summarise

    cfgs = pcut.configs(tier)
    if only:
        cfgs = [c for c in cfgs if match_only(only, pcut._name(c), c["htag"])]
    results = prun.run_programs(cfgs, pcut.check)
    info = summarise(cfgs, results, 0)
    krs, kinfo = kcollect.run("C17", tier, only)
    results = krs + results
    info.update(kinfo)
    info["rule"] = "one obligation per (head node kind, continuation, cut kind, layout): z3 decides cut == uncut for all table contents; schema and divisions compared concretely"
    return "translation_validation", results, info, ASSUMPTIONS
