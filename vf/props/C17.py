"""C17 - materialization boundaries are transparent."""
from .. import prun, pcut
from ..common import seed

ASSUMPTIONS = [
    "persist(): the scheduler run is replaced by the symbolic executor - the real __dask_postpersist__ rebuild (from_graph, FromGraph._layer key aliasing) is applied to the "
    "dict of symbolically computed partition values of the optimised head",
    "to_delayed()/from_delayed(meta, divisions) and to_legacy_dataframe()/from_legacy_dataframe() run for real (legacy graph optimisation only restructures tasks); the "
    "resulting graphs are interpreted symbolically",
    "oracle: the uncut query; final result, schema (labels/kind) and divisions compared; symdf leaf models; <=5 rows, <=3 partitions; distributed outside",
]


def run(tier, only=None):
    from ..pfam import summarise

    cfgs = pcut.configs(tier)
    if only:
        cfgs = [c for c in cfgs if only in pcut._name(c) or only in c["htag"]]
    results = prun.run_programs(cfgs, pcut.check)
    info = summarise(cfgs, results, 0)
    info["rule"] = "one obligation per (head node kind, continuation, cut kind, layout): z3 decides cut == uncut for all table contents; schema and divisions compared concretely"
    return "translation_validation", results, info, ASSUMPTIONS
