"""Engine T: AST -> SMT-LIB (QF_BVFP) for RepartitionToFewer._partitions_boundaries.

The boundary list is `[int(i * (n_in / n)) for i in range(n + 1)]` in IEEE doubles.  The translator re-reads the
function's source from /repo on every run, finds (a) the list comprehension over `range(<n> + 1)` and (b) the local
assignments feeding it, and translates the element expression with a small typed expression compiler
(int -> (_ BitVec 32); `/` -> fp.div RNE on doubles; `*`,`+`,`-` -> fp ops when an operand is a double, bv ops otherwise;
`int(x)` -> fp.to_sbv RTZ).  Anything it does not understand makes the lemma *inconclusive*, never passed.

Facts asked of cvc5 (each as the negation, expecting unsat), for all 1 <= n < n_in <= BOUND and 0 <= i < n:
  L1  b(i) < b(i+1)            (strictly increasing: no empty or reversed output partition)
  L2  b(0) = 0
  L3  b(n) <= n_in             (never indexes past the input partitions)
The integer post-processing (_clean_new_division_boundaries, _layer, _divisions) is covered by the K harness `to_fewer`.
"""
from __future__ import annotations

import ast
import inspect
import os
import subprocess
import tempfile
import textwrap
import time

FP = "(_ FloatingPoint 11 53)"


class Untranslatable(Exception):
    pass


def _extract():
    from dask_expr._repartition import RepartitionToFewer

    fn = RepartitionToFewer.__dict__["_partitions_boundaries"].func
    tree = ast.parse(textwrap.dedent(inspect.getsource(fn)))
    body = tree.body[0].body
    env = {}
    comp = None
    for st in body:
        if isinstance(st, ast.Assign) and len(st.targets) == 1 and isinstance(st.targets[0], ast.Name):
            if isinstance(st.value, ast.ListComp):
                comp = st.value
            else:
                env[st.targets[0].id] = st.value
    if comp is None or len(comp.generators) != 1 or comp.generators[0].ifs:
        raise Untranslatable("no single list comprehension found")
    gen = comp.generators[0]
    it = gen.iter
    if not (isinstance(it, ast.Call) and isinstance(it.func, ast.Name) and it.func.id == "range" and len(it.args) == 1):
        raise Untranslatable("comprehension does not iterate over range(<expr>)")
    if not isinstance(gen.target, ast.Name):
        raise Untranslatable("comprehension target")
    return comp.elt, gen.target.id, it.args[0], env


def _compile(node, idx_name, env, depth=0):
    """-> (smt text, type) with type in {'int', 'fp'}"""
    if depth > 20:
        raise Untranslatable("recursion")
    if isinstance(node, ast.Constant) and isinstance(node.value, int) and not isinstance(node.value, bool):
        return f"(_ bv{node.value} 32)", "int"
    if isinstance(node, ast.Name):
        if node.id == idx_name:
            return "i", "int"
        if node.id in env:
            return _compile(env[node.id], idx_name, env, depth + 1)
        raise Untranslatable(f"free name {node.id}")
    if isinstance(node, ast.Attribute):
        path = ast.unparse(node)
        if path == "self.new_partitions":
            return "n", "int"
        if path == "self.frame.npartitions":
            return "n_in", "int"
        raise Untranslatable(path)
    if isinstance(node, ast.Call) and isinstance(node.func, ast.Name) and node.func.id == "int" and len(node.args) == 1:
        t, ty = _compile(node.args[0], idx_name, env, depth + 1)
        return (f"((_ fp.to_sbv 32) RTZ {t})", "int") if ty == "fp" else (t, "int")
    if isinstance(node, ast.Call) and isinstance(node.func, ast.Name) and node.func.id == "float" and len(node.args) == 1:
        t, ty = _compile(node.args[0], idx_name, env, depth + 1)
        return (t, "fp") if ty == "fp" else (f"((_ to_fp 11 53) RNE {t})", "fp")
    if isinstance(node, ast.BinOp):
        a, ta = _compile(node.left, idx_name, env, depth + 1)
        b, tb = _compile(node.right, idx_name, env, depth + 1)
        tofp = lambda t, ty: t if ty == "fp" else f"((_ to_fp 11 53) RNE {t})"
        if isinstance(node.op, ast.Div):
            return f"(fp.div RNE {tofp(a, ta)} {tofp(b, tb)})", "fp"
        ops = {ast.Mult: ("fp.mul RNE", "bvmul"), ast.Add: ("fp.add RNE", "bvadd"), ast.Sub: ("fp.sub RNE", "bvsub")}
        for k, (fo, bo) in ops.items():
            if isinstance(node.op, k):
                if "fp" in (ta, tb):
                    return f"({fo} {tofp(a, ta)} {tofp(b, tb)})", "fp"
                return f"({bo} {a} {b})", "int"
        if isinstance(node.op, ast.FloorDiv) and ta == tb == "int":
            return f"(bvsdiv {a} {b})", "int"  # operands are positive here
    raise Untranslatable(ast.unparse(node))


def queries(bound: int):
    elt, idx, range_arg, env = _extract()
    body, ty = _compile(elt, idx, env)
    if ty != "int":
        raise Untranslatable("boundary is not an int")
    upper, uty = _compile(range_arg, "\0", env)  # range(upper): indices 0..upper-1
    pre = f"""(set-logic QF_BVFP)
(declare-const n_in (_ BitVec 32))
(declare-const n (_ BitVec 32))
(declare-const k (_ BitVec 32))
(assert (bvult n n_in))
(assert (bvuge n #x00000001))
(assert (bvule n_in (_ bv{bound} 32)))
(define-fun b ((i (_ BitVec 32))) (_ BitVec 32) {body})
(define-fun last () (_ BitVec 32) (bvsub {upper} (_ bv1 32)))
"""
    return {
        "L0_range_is_n_plus_1": pre + "(assert (not (= last n)))\n(check-sat)\n",
        "L1_strictly_increasing": pre + "(assert (bvult k last))\n(assert (not (bvslt (b k) (b (bvadd k (_ bv1 32))))))\n(check-sat)\n",
        "L2_starts_at_zero": pre + "(assert (not (= (b (_ bv0 32)) (_ bv0 32))))\n(check-sat)\n",
        "L3_last_within_input": pre + "(assert (not (bvsle (b last) n_in)))\n(check-sat)\n",
    }, ast.unparse(elt)


def solve(text: str, timeout: int, workdir: str):
    """cvc5 binary decides; z3 is only a cross-check when it answers in time (it usually does not)."""
    fd, path = tempfile.mkstemp(suffix=".smt2", dir=workdir)
    with os.fdopen(fd, "w") as f:
        f.write(text)
    t0 = time.time()
    try:
        p = subprocess.run(["cvc5", f"--tlimit={timeout * 1000}", path], capture_output=True, text=True, timeout=timeout + 30)
        out = (p.stdout + p.stderr).strip()
    except subprocess.TimeoutExpired:
        out = "timeout"
    finally:
        os.unlink(path)
    dt = time.time() - t0
    if "(error" in out or "error" in out.lower() and "unsat" not in out:
        return "unknown", out[:200], dt
    first = out.splitlines()[0] if out else "unknown"
    return (first if first in ("sat", "unsat") else "unknown"), out[:200], dt


def counterexample(text: str, timeout: int, workdir: str):
    t = text.replace("(check-sat)", "(check-sat)\n(get-value (n_in n k))").replace("(set-logic QF_BVFP)", "(set-option :produce-models true)\n(set-logic QF_BVFP)")
    fd, path = tempfile.mkstemp(suffix=".smt2", dir=workdir)
    with os.fdopen(fd, "w") as f:
        f.write(t)
    try:
        p = subprocess.run(["cvc5", f"--tlimit={timeout * 1000}", path], capture_output=True, text=True, timeout=timeout + 30)
        return p.stdout
    except subprocess.TimeoutExpired:
        return ""
    finally:
        os.unlink(path)
