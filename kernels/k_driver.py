"""C19: the fixed-point drivers of dask_expr/_core.py (Expr.simplify, Expr.lower_completely) on stub nodes whose
rewrite results come from a symbolic successor table.  Symbolic: the successor of each of M node names."""
from typing import Tuple

from dask_expr._core import Expr

HARNESSES = []
M = 4


class _Budget(Exception):
    pass


class _Node(Expr):
    def __new__(cls, *a, **k):
        return object.__new__(cls)

    def __init__(self, ident, table, counter):
        self.operands = []
        self.ident, self.table, self.counter = ident, table, counter

    @property
    def _name(self):
        return "n" + str(self.ident)

    def dependencies(self):
        return []

    def _step(self):
        self.counter[0] += 1
        if self.counter[0] > 2 * M + 2:
            raise _Budget()
        return _Node(self.table[self.ident], self.table, self.counter)

    def simplify_once(self, dependents, simplified):
        return self._step()

    def lower_once(self):
        return self._step()


def _orbit(table):
    """-> (fixpoint reached or None, entered a longer cycle?)"""
    seen, x = [], 0
    while True:
        if table[x] == x:
            return x, False
        if table[x] in seen or table[x] == 0 and x != 0 and 0 in seen:
            return None, True
        seen.append(x)
        x = table[x]
        if len(seen) > M + 1:
            return None, True


def simplify_driver(t: Tuple[int, int, int, int]) -> int:
    """
    pre: all(0 <= x < 4 for x in t)
    """
    counter = [0]
    fix, cyc = _orbit(t)
    try:
        out = Expr.simplify(_Node(0, t, counter))
    except RuntimeError:
        # "Optimizer does not converge": only legitimate when the orbit of node 0 enters a cycle of length > 1
        return 1 if cyc else 2
    except _Budget:
        return 2  # the driver kept rewriting past every possible distinct state: it spins
    if cyc:
        return 2  # a cycle must be reported, not silently cut
    if out.ident != fix:
        return 2
    return 1 if counter[0] <= M + 1 else 2


HARNESSES.append(dict(module=__name__, fn="simplify_driver", props=["C19"], tier="quick", timeout=120,
                      bounds="4 node names, arbitrary successor table (symbolic), step budget 2M+2",
                      functions=["dask_expr._core.Expr.simplify"]))


def lower_driver(t: Tuple[int, int, int, int]) -> int:
    """
    pre: all(0 <= x < 4 for x in t)
    """
    # precondition of lowering: every rewrite makes progress (a ranking exists): successor is larger or itself
    for i in range(M):
        if not (t[i] >= i):
            return 0
    counter = [0]
    fix, cyc = _orbit(t)
    try:
        out = Expr.lower_completely(_Node(0, t, counter))
    except _Budget:
        return 2
    if out.ident != fix:
        return 2
    return 1 if counter[0] <= M + 1 else 2


HARNESSES.append(dict(module=__name__, fn="lower_driver", props=["C19"], tier="quick", timeout=120,
                      bounds="4 node names, monotone successor table (symbolic)", functions=["dask_expr._core.Expr.lower_completely"]))
