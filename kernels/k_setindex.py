"""C06 / C02: the "already sorted" decision of set_index / sort_values.

`_calculate_divisions` runs for real.  The three values it obtains from `compute` (approximate quantiles, per-partition
minima and maxima of the key) are the environment: a stub returns arbitrary values constrained only by their contract
(min_i <= max_i, quantiles sorted inside [min, max]); they are CrossHair's symbolic variables.  The Series those values
arrive in is a list-backed stand-in that implements exactly the handful of pandas methods the function calls, so that
the comparisons stay symbolic.

Obligation: whenever the function answers presorted=True, the partitions' key ranges are disjoint and ordered, which is
what the consumers rely on when they skip the shuffle:
  SetIndex._divisions / _lower: divisions = mins + [maxes[-1]] with half-open partitions (C06: truthful divisions)
  SortValues._lower: partition-wise sort (C02: equals pandas for multi-column keys)"""
from types import SimpleNamespace
from typing import Tuple

import pandas as _pandas

import dask_expr
import dask_expr._shuffle as _sh

HARNESSES = []


class _ILoc:
    def __init__(self, s):
        self.s = s

    def __getitem__(self, k):
        if isinstance(k, slice):
            return _S(self.s.v[k])
        if isinstance(k, (list, tuple)) or hasattr(k, "tolist"):
            return _S([self.s.v[int(i)] for i in k])
        return self.s.v[k]


class _S:
    """the part of pandas.Series that _calculate_divisions uses, over a Python list (no missing values)"""

    def __init__(self, v):
        self.v = list(v)

    @property
    def size(self):
        return len(self.v)

    @property
    def iloc(self):
        return _ILoc(self)

    def tolist(self):
        return list(self.v)

    def __iter__(self):
        return iter(self.v)

    def __len__(self):
        return len(self.v)

    def bfill(self):
        return self

    def astype(self, dtype):
        return self

    def isna(self):
        return _S([False for _ in self.v])

    def any(self):
        for x in self.v:
            if x:
                return True
        return False

    def all(self):
        for x in self.v:
            if not x:
                return False
        return True

    def reset_index(self, drop=False):
        return self

    def sort_values(self, ascending=True):
        return _S(sorted(self.v, reverse=not ascending))

    def unique(self):
        out = []
        for x in self.v:
            if x not in out:
                out.append(x)
        return out

    def __lt__(self, other):
        return _S([a < b for a, b in zip(self.v, other.v)])

    def __le__(self, other):
        return _S([a <= b for a, b in zip(self.v, other.v)])

    def __gt__(self, other):
        return _S([a > b for a, b in zip(self.v, other.v)])

    def __ge__(self, other):
        return _S([a >= b for a, b in zip(self.v, other.v)])


from dask.dataframe.dispatch import tolist_dispatch

tolist_dispatch.register(_S)(lambda obj: list(obj.v))

_PD = SimpleNamespace(isna=lambda x: x.isna(), CategoricalDtype=_pandas.CategoricalDtype, api=_pandas.api, Series=_S)


def _calc(mins, maxes, asc):
    lo, hi = min(mins), max(maxes)
    stub_compute = lambda *a, **k: (_S([lo, hi]), _S(mins), _S(maxes))
    coll = SimpleNamespace(map_partitions=lambda f: None)
    saved = (_sh.compute, _sh.pd, _sh.is_index_like, dask_expr.RepartitionQuantiles, dask_expr.new_collection)
    _sh.compute, _sh.pd, _sh.is_index_like = stub_compute, _PD, (lambda m: False)
    dask_expr.RepartitionQuantiles, dask_expr.new_collection = (lambda *a, **k: None), (lambda e: coll)
    try:
        other = SimpleNamespace(_meta=SimpleNamespace(dtype=None), _name="other", name="a")
        return _sh._calculate_divisions(None, other, len(mins), asc)
    finally:
        _sh.compute, _sh.pd, _sh.is_index_like, dask_expr.RepartitionQuantiles, dask_expr.new_collection = saved


def _presorted(mins, maxes, asc):
    n = len(mins)
    for i in range(n):
        if not mins[i] <= maxes[i]:
            return 0
    divisions, rmins, rmaxes, presorted = _calc(mins, maxes, asc)
    if rmins != list(mins) or rmaxes != list(maxes):
        return 2
    if not presorted:
        return 0
    for i in range(n - 1):
        if asc:
            if not maxes[i] < mins[i + 1]:
                return 2  # a key value may sit on both sides of the border
        else:
            if not mins[i] > maxes[i + 1]:
                return 2
    return 1


def presorted_2(mins: Tuple[int, int], maxes: Tuple[int, int], asc: bool) -> int:
    """
    pre: True
    """
    return _presorted(mins, maxes, asc)


def presorted_3(mins: Tuple[int, int, int], maxes: Tuple[int, int, int], asc: bool) -> int:
    """
    pre: True
    """
    return _presorted(mins, maxes, asc)


def presorted_4(mins: Tuple[int, int, int, int], maxes: Tuple[int, int, int, int], asc: bool) -> int:
    """
    pre: True
    """
    return _presorted(mins, maxes, asc)


for _n in (2, 3, 4):
    HARNESSES.append(dict(module=__name__, fn=f"presorted_{_n}", props=["C06", "C02"], tier="quick" if _n <= 3 else "thorough", timeout=120,
                          bounds=f"{_n} partitions; per-partition key minima / maxima unbounded symbolic ints with min_i <= max_i; ascending symbolic; no missing keys",
                          functions=["dask_expr._shuffle._calculate_divisions (post-processing of the computed quantiles / minima / maxima; compute() is a stub returning the symbolic values)"],
                          api_replay="api_presorted"))


def api_presorted(mins, maxes, asc):
    """public API: a frame whose partitions hold exactly [min_i, max_i] as key values; set_index must report truthful
    divisions and sort_values on (key, tie-breaker) must equal pandas"""
    import warnings

    import dask
    import pandas as pd

    import dask_expr as dx
    from ._kutil import in_part

    n = len(mins)
    keys, tie = [], []
    for i in range(n):
        keys += [int(mins[i]), int(maxes[i])]
        # against the sort direction, so that the order inside a run of equal keys that spans a border matters
        tie += [2 * (n - i), 2 * (n - i) - 1] if asc else [2 * i + 1, 2 * i + 2]
    pdf = pd.DataFrame({"a": keys, "b": tie})
    with dask.config.set({"dataframe.convert-string": False, "dataframe.shuffle.method": "tasks"}), warnings.catch_warnings():
        warnings.simplefilter("ignore")
        _sh.divisions_lru.data.clear()
        df = dx.from_pandas(pdf, npartitions=n, sort=False)
        msgs = []
        if asc:
            out = df.set_index("a")
            divs = out.divisions
            if all(d is not None for d in divs):
                parts = [out.partitions[i].compute() for i in range(out.npartitions)]
                for j, g in enumerate(parts):
                    bad = [int(v) for v in g.index if not in_part(divs, j, int(v))]
                    if bad:
                        msgs.append(f"set_index('a'): partition {j} holds index values {bad} outside divisions {divs}")
                for label in sorted(set(keys)):
                    got = sorted(out.loc[label].compute().b.tolist())
                    want = sorted(pdf[pdf.a == label].b.tolist())
                    if got != want:
                        msgs.append(f"set_index('a').loc[{label}] returns {got}, pandas {want}")
                        break
        got = df.sort_values(["a", "b"], ascending=asc).reset_index(drop=True).compute()
        want = pdf.sort_values(["a", "b"], ascending=asc).reset_index(drop=True)
        if got.values.tolist() != want.values.tolist():
            msgs.append(f"sort_values(['a', 'b'], ascending={asc}) gives {got.values.tolist()}, pandas {want.values.tolist()}")
        return bool(msgs), "; ".join(msgs) or f"keys {keys}: divisions truthful and sort equals pandas"


# ---- sorted=True / compute_current_divisions: partition statistics and the overlap-resolving layer -------------------------------

def _refs(t, src):
    """source partitions mentioned inside a task"""
    out = []
    if isinstance(t, tuple) and len(t) == 2 and t[0] == src and isinstance(t[1], int):
        return [t[1]]
    if isinstance(t, (tuple, list)):
        for x in t:
            out += _refs(x, src)
    return out


def _overlap_wiring(mins, maxes, lens):
    import dask_expr._collection as coll
    import dask_expr._expr as ex

    n = len(lens)
    non_empty = [i for i in range(n) if lens[i] != 0]
    for i in range(n):
        if lens[i] < 0 or (lens[i] != 0 and not mins[i] <= maxes[i]):
            return 0
    ne_mins = [mins[i] for i in non_empty]
    ne_maxes = [maxes[i] for i in non_empty]
    if sorted(ne_mins) != ne_mins or sorted(ne_maxes) != ne_maxes:
        return 0  # rejected by the function (ValueError), not in scope here
    # what compute() hands back: per-partition minima / maxima (an empty partition has none; bfill gives it its successor's)
    saved = coll.compute
    coll.compute = lambda *a, **k: (_S(mins), _S(maxes), _S(lens))
    try:
        column = SimpleNamespace(map_partitions=lambda *a, **k: None, name="a")
        m2, x2, l2 = coll._compute_partition_stats(column, allow_overlap=True)
    finally:
        coll.compute = saved
    e = object.__new__(ex.ResolveOverlappingDivisions)
    e.operands = [SimpleNamespace(_name="src", npartitions=n, _meta=None, divisions=(None,) * (n + 1)), m2, x2, l2]
    object.__setattr__(e, "_name", "resolve-tok")
    divs = ex.ResolveOverlappingDivisions._divisions(e)
    object.__setattr__(e, "divisions", divs)
    dsk = ex.ResolveOverlappingDivisions._layer(e)
    if not non_empty:
        return 1 if dsk == {("resolve-tok", 0): ("src", 0)} else 2
    if len(divs) != len(non_empty) + 1:
        return 2  # reported partition count differs from the number of non-empty inputs
    for i, src_i in enumerate(non_empty):
        if ("resolve-tok", i) not in dsk:
            return 2
        refs = _refs(dsk[("resolve-tok", i)], "src")
        # output i is built from the i-th non-empty input (plus boundary rows of earlier non-empty inputs), never from an empty one
        if src_i not in refs:
            return 2
        for r in refs:
            if r not in non_empty or r > src_i:
                return 2
        if divs[i] != mins[src_i]:
            return 2
    if divs[-1] != maxes[non_empty[-1]]:
        return 2
    return 1


def overlap_wiring_3(mins: Tuple[int, int, int], maxes: Tuple[int, int, int], lens: Tuple[int, int, int]) -> int:
    """
    pre: True
    """
    return _overlap_wiring(mins, maxes, lens)


def overlap_wiring_4(mins: Tuple[int, int, int, int], maxes: Tuple[int, int, int, int], lens: Tuple[int, int, int, int]) -> int:
    """
    pre: True
    """
    return _overlap_wiring(mins, maxes, lens)


for _n in (3, 4):
    HARNESSES.append(dict(module=__name__, fn=f"overlap_wiring_{_n}", props=["C06", "C02"], tier="quick" if _n == 3 else "thorough", timeout=150,
                          bounds=f"{_n} input partitions; per-partition minima, maxima and lengths unbounded symbolic ints (lengths >= 0, empty partitions anywhere), sorted non-empty ranges",
                          functions=["dask_expr._collection._compute_partition_stats (compute() stubbed with the symbolic statistics)", "dask_expr._expr.ResolveOverlappingDivisions._divisions", "ResolveOverlappingDivisions._layer"],
                          api_replay="api_overlap_wiring"))


def api_overlap_wiring(mins, maxes, lens):
    """public API: set_index(sorted=True) on a frame with the given per-partition ranges (empty partitions included) returns all rows
    inside truthful divisions"""
    import warnings

    import dask
    import pandas as pd
    from dask import delayed

    import dask_expr as dx
    from ._kutil import in_part

    parts = []
    for lo, hi, ln in zip(mins, maxes, lens):
        ln = min(int(ln), 3)
        keys = [] if ln == 0 else ([int(lo)] if ln == 1 else [int(lo)] + [int(hi)] * (ln - 1))
        parts.append(pd.DataFrame({"a": pd.array(keys, dtype="int64"), "b": range(len(keys))}))
    total = sum(len(p) for p in parts)
    if total == 0:
        return False, "no rows"
    with dask.config.set({"dataframe.convert-string": False}), warnings.catch_warnings():
        warnings.simplefilter("ignore")
        df = dx.from_delayed([delayed(p) for p in parts], meta=parts[0].iloc[:0], verify_meta=False)
        out = df.set_index("a", sorted=True)
        divs = out.divisions
        got = [out.partitions[i].compute() for i in range(out.npartitions)]
        msgs = []
        if sum(len(g) for g in got) != total:
            msgs.append(f"{sum(len(g) for g in got)} rows come back, {total} went in")
        if all(d is not None for d in divs):
            for j, g in enumerate(got):
                bad = [int(v) for v in g.index if not in_part(divs, j, int(v))]
                if bad:
                    msgs.append(f"partition {j} holds index values {bad} outside divisions {divs}")
        return bool(msgs), "; ".join(msgs) or "all rows inside truthful divisions"
