"""C09: hand-written multi-key layer generators under CrossHair with symbolic size parameters / partition subsets.
Postcondition: every output key (name, i), i < npartitions, is defined; every key referenced inside a task is defined in the
layer or is a dependency key (dep name, j) with j < dep.npartitions; the layer is acyclic."""
from types import SimpleNamespace
from typing import Tuple

from dask_expr._reductions import TreeReduce
from dask_expr._cumulative import CumulativeFinalize
from dask_expr._expr import CreateOverlappingPartitions, Lengths
from dask_expr._merge import BroadcastJoin
from dask_expr._shuffle import TaskShuffle, SimpleShuffle
from dask_expr.io.io import FromGraph

from kernels._kutil import istask, acyclic

HARNESSES = []


def _refs(t, names):
    if isinstance(t, tuple) and len(t) >= 2 and isinstance(t[0], str) and t[0] in names and all(isinstance(x, (int, str)) for x in t[1:]):
        yield t
    elif isinstance(t, (tuple, list)):
        for x in t:
            yield from _refs(x, names)
    elif isinstance(t, dict):
        for x in t.values():
            yield from _refs(x, names)


def closed(dsk, name, nout, deps):
    """'' or a description of the structural defect"""
    for i in range(nout):
        if (name, i) not in dsk:
            return f"output key {(name, i)} missing"
    names = {k[0] for k in dsk if isinstance(k, tuple)} | set(deps)
    for k, t in dsk.items():
        body = t[1:] if istask(t) else (t,)
        for r in _refs(body, names):
            if r in dsk:
                continue
            if r[0] in deps and len(r) == 2 and isinstance(r[1], int) and 0 <= r[1] < deps[r[0]]:
                continue
            return f"key {r} referenced by {k} is neither defined nor a dependency key"
    return ""


class _Src:
    def __init__(self, name, n, meta=None):
        self._name, self.npartitions = name, n
        self.divisions = (None,) * (n + 1)
        self._meta = meta

    def __dask_keys__(self):
        return [(self._name, i) for i in range(self.npartitions)]

    def _divisions(self):
        return self.divisions


class _TR(TreeReduce):
    _name = "tree"

    def __new__(cls, *a, **k):
        return object.__new__(cls)

    def __init__(self, frame, split_every):
        self.operands = [frame, None, None, "combine", "aggregate", None, None, split_every]


def _leaves(d, key, depth=0):
    t = d[key]
    out = []
    for k in t[1] if not (istask(t) and t[0].__name__ == "apply") else t[2][0]:
        if k in d:
            out += _leaves(d, k, depth + 1)
        else:
            out.append(k)
    return out


def tree_reduce(n: int, se: int) -> int:
    """
    pre: 1 <= n <= 9
    pre: 1 <= se <= 4
    """
    split_every = False if se == 1 else se
    e = _TR(_Src("src", n), split_every)
    d = e._layer()
    if closed(d, "tree", 1, {"src": n}):
        return 2
    if not acyclic(d):
        return 2
    # every source partition reaches the root exactly once, in order
    if _leaves(d, ("tree", 0)) != [("src", i) for i in range(n)]:
        return 2
    # no combine batch is larger than split_every
    if split_every:
        for k, t in d.items():
            if len(k) == 3 and len(t[1]) > split_every:
                return 2
    return 1


HARNESSES.append(dict(module=__name__, fn="tree_reduce", props=["C09", "C10"], tier="quick", timeout=120,
                      bounds="n <= 9 input partitions (symbolic), split_every in {False, 2, 3, 4} (symbolic)",
                      functions=["dask_expr._reductions.TreeReduce._layer", "TreeReduce.split_every"]))


class _CF(CumulativeFinalize):
    _name = "cumfin"

    def __new__(cls, *a, **k):
        return object.__new__(cls)

    def __init__(self, frame, prev):
        self.operands = [frame, prev, "agg", True]


def cumulative_finalize(n: int) -> int:
    """
    pre: 1 <= n <= 6
    """
    e = _CF(_Src("chunks", n), _Src("last", n))
    d = e._layer()
    if closed(d, "cumfin", n, {"chunks": n, "last": n}):
        return 2
    if not acyclic(d):
        return 2
    # partition i must depend on the last values of exactly the partitions 0..i-1 and on chunk i
    for i in range(n):
        seen, stack = set(), [("cumfin", i)]
        while stack:
            k = stack.pop()
            if k in seen:
                continue
            seen.add(k)
            if k in d:
                t = d[k]
                stack += [r for r in _refs(t[1:] if istask(t) else (t,), {"cumfin", "cumfin-intermediate", "chunks", "last"})]
        if {k[1] for k in seen if k[0] == "last"} != set(range(i)):
            return 2
        if {k[1] for k in seen if k[0] == "chunks"} != {i}:
            return 2
    return 1


HARNESSES.append(dict(module=__name__, fn="cumulative_finalize", props=["C09", "C02"], tier="quick", timeout=120,
                      bounds="n <= 6 partitions (symbolic)", functions=["dask_expr._cumulative.CumulativeFinalize._layer"]))


class _COP(CreateOverlappingPartitions):
    _name = "overlap"

    def __new__(cls, *a, **k):
        return object.__new__(cls)

    def __init__(self, frame, before, after):
        self.operands = [frame, before, after]


def overlapping(n: int, before: int, after: int) -> int:
    """
    pre: 1 <= n <= 5
    pre: 0 <= before <= 2 and 0 <= after <= 2
    """
    e = _COP(_Src("src", n), before, after)
    d = e._layer()
    if closed(d, "overlap", n, {"src": n}):
        return 2
    if not acyclic(d):
        return 2
    for i in range(n):
        t = d[("overlap", i)]
        _, prev, cur, nxt, b, a = t
        if cur != ("src", i) or b != before or a != after:
            return 2
        # the previous / next pieces come from the neighbouring partitions only
        if before and i > 0:
            if prev is None or d[prev][1] != ("src", i - 1) or d[prev][2] != before:
                return 2
        elif prev is not None:
            return 2
        if after and i < n - 1:
            if nxt is None or d[nxt][1] != ("src", i + 1) or d[nxt][2] != after:
                return 2
        elif nxt is not None:
            return 2
    return 1


HARNESSES.append(dict(module=__name__, fn="overlapping", props=["C09", "C02"], tier="quick", timeout=120,
                      bounds="n <= 5 partitions, integer before/after in 0..2 (all symbolic)", functions=["dask_expr._expr.CreateOverlappingPartitions._layer"]))


class _BJ(BroadcastJoin):
    _name = "bjoin"
    _meta = None

    def __new__(cls, *a, **k):
        return object.__new__(cls)

    def __init__(self, left, right, how, parts):
        self.operands = [left, right, how, "a", "a", None, None, ("_x", "_y"), False, parts]


def _bj(nl, nr, how, parts):
    left, right = _Src("left", nl), _Src("right", nr)
    e = _BJ(left, right, how, parts)
    n_other = max(nl, nr) if nl != nr else nr
    sel = list(parts) if parts is not None else list(range(e.npartitions))
    d = e._layer()
    if closed(d, "bjoin", len(sel), {"left": nl, "right": nr}):
        return 2
    if not acyclic(d):
        return 2
    bside = "left" if nl < nr else "right"
    other = "right" if bside == "left" else "left"
    nb = nl if bside == "left" else nr
    for i, p in enumerate(sel):
        # output i joins partition p of the large side with *every* partition of the broadcast side, exactly once
        seen, stack = [], [("bjoin", i)]
        names = {k[0] for k in d} | {"left", "right"}
        visited = set()
        while stack:
            k = stack.pop()
            if k in visited:
                continue
            visited.add(k)
            if k in d:
                t = d[k]
                stack += list(_refs(t[1:] if istask(t) else (t,), names))
            else:
                seen.append(k)
        if sorted(k[1] for k in seen if k[0] == bside) != list(range(nb)):
            return 2
        if {k[1] for k in seen if k[0] == other} != {p}:
            return 2
    return 1


def broadcast_join(flag: bool) -> int:
    """
    pre: True
    """
    # exhaustive structural sweep (dict keys built from symbolic ints are out of CrossHair's reach): sizes, join kinds and
    # every selection of one or two output partitions (any order, repeats)
    import itertools

    for nl in range(1, 5):
        for nr in range(1, 5):
            if nl == nr:
                continue
            bside = "left" if nl < nr else "right"
            big = max(nl, nr)
            for how in ("inner", "left", "right"):
                if how == bside:
                    continue
                sels = [None] + [[p] for p in range(big)] + [list(p) for p in itertools.product(range(big), repeat=2)]
                for parts in sels:
                    if _bj(nl, nr, how, parts) != 1:
                        return 2
    return 1


HARNESSES.append(dict(module=__name__, fn="broadcast_join", props=["C09", "C11"], tier="quick", timeout=300, kind="sweep",
                      bounds="exhaustive sweep: 1..4 x 1..4 partitions, how in {inner,left,right}, every selection of <= 2 output partitions (no symbolic variable)",
                      functions=["dask_expr._merge.BroadcastJoin._layer", "PartitionsFiltered.npartitions"]))


class _TS(TaskShuffle):
    _name = "tshuffle"

    def __new__(cls, *a, **k):
        return object.__new__(cls)

    def __init__(self, frame, n_out, max_branch, parts):
        self.operands = [frame, "_partitions", n_out, False, {"max_branch": max_branch}, parts]


def _shuffle(n_in, n_out, mb, parts):
    import pandas as pd

    e = _TS(_Src("src", n_in, meta=pd.DataFrame({"a": [1]}).iloc[:0]), n_out, mb, parts)
    sel = list(parts) if parts is not None else list(range(n_out))
    d = e._layer()
    msg = closed(d, "tshuffle", len(sel), {"src": n_in})
    if msg:
        return 2
    return 1 if acyclic(d) else 2


def task_shuffle_subset(flag: bool) -> int:
    """
    pre: True
    """
    import itertools

    # exhaustive structural sweep: staged and single-stage layouts x selections of output partitions
    for n, mb in ((9, 3), (9, 2), (5, 2), (4, 4)):
        sels = [list(p) for p in itertools.product(range(n), repeat=2)] + [list(c) for k in (1, 3, 4) for c in itertools.combinations(range(n), k)]
        sels += [list(reversed(range(n)))[: mb + 2]]
        for sel in sels:
            if _shuffle(n, n, mb, sel) != 1:
                return 2
    return 1


HARNESSES.append(dict(module=__name__, fn="task_shuffle_subset", props=["C09", "C11", "C12"], tier="quick", timeout=600, kind="sweep",
                      bounds="exhaustive sweep: (n, max_branch) in {(9,3),(9,2),(5,2),(4,4)} x all ordered pairs and all subsets of size 1,3,4 of output partitions",
                      functions=["dask_expr._shuffle.TaskShuffle._layer", "SimpleShuffle._layer"]))


def task_shuffle_sizes(sel_all: bool) -> int:
    """
    pre: True
    """
    # exhaustive structural sweep (no symbolic data): every (n_in, n_out, max_branch) up to 9
    for n_in in range(1, 10):
        for n_out in range(1, 10):
            for mb in (2, 3, 4):
                if _shuffle(n_in, n_out, mb, None) != 1:
                    return 2
    return 1


HARNESSES.append(dict(module=__name__, fn="task_shuffle_sizes", props=["C09"], tier="quick", timeout=600, kind="sweep",
                      bounds="all (n_in, n_out, max_branch) up to 9x9x{2,3,4}, structural sweep", functions=["dask_expr._shuffle.TaskShuffle._layer"]))


class _Len(Lengths):
    _name = "lengths"

    def __new__(cls, *a, **k):
        return object.__new__(cls)

    def __init__(self, frame):
        self.operands = [frame]


def lengths_layer(n: int) -> int:
    """
    pre: 1 <= n <= 8
    """
    e = _Len(_Src("src", n))
    d = e._layer()
    if closed(d, "lengths", 1, {"src": n}):
        return 2
    t = d[("lengths", 0)]
    if [d[k][1] for k in t[1]] != [("src", i) for i in range(n)]:
        return 2
    return 1


HARNESSES.append(dict(module=__name__, fn="lengths_layer", props=["C09", "C06"], tier="quick", timeout=60, bounds="n <= 8 partitions (symbolic)",
                      functions=["dask_expr._expr.Lengths._layer"]))


class _FG(FromGraph):
    _name = "fromgraph"

    def __new__(cls, *a, **k):
        return object.__new__(cls)

    def __init__(self, layer, keys):
        self.operands = [layer, None, (None,) * (len(keys) + 1), keys, "fromgraph"]


def from_graph_layer(n: int, k0: int, k1: int, k2: int) -> int:
    """
    pre: 1 <= n <= 5
    pre: 0 <= k0 < n and 0 <= k1 < n and 0 <= k2 < n
    """
    layer = {("persisted", i): i * 10 for i in range(n)}
    keys = [("persisted", k) for k in (k0, k1, k2)]
    e = _FG(layer, keys)
    d = e._layer()
    for i, k in enumerate(keys):
        if d.get(("fromgraph", i)) != k:
            return 2
    for k, v in layer.items():
        if d.get(k) != v:
            return 2
    return 1 if acyclic(d) else 2


HARNESSES.append(dict(module=__name__, fn="from_graph_layer", props=["C09", "C17"], tier="quick", timeout=60, bounds="<= 5 persisted keys, 3 aliased outputs (symbolic choice)",
                      functions=["dask_expr.io.io.FromGraph._layer"]))
