"""C18 / C06: parquet statistics handling (dask_expr/io/parquet.py) with symbolic per-file / per-row-group statistics."""
from typing import Tuple

from dask_expr.io.parquet import _aggregate_statistics_to_file, _divisions_from_statistics

HARNESSES = []


def _file(rgs, name="idx"):
    """raw statistics of one file: list of (num_rows, min, max) per row group"""
    return {
        "num_rows": sum(r[0] for r in rgs), "num_row_groups": len(rgs), "serialized_size": 10,
        "row_groups": [
            {"num_rows": n, "total_byte_size": n * 8, "sorting_columns": None,
             "columns": [{"num_values": n, "total_compressed_size": n * 8, "total_uncompressed_size": n * 8, "path_in_schema": name,
                          "statistics": {"min": lo, "max": hi, "null_count": 0, "num_values": n, "distinct_count": None}}]}
            for n, lo, hi in rgs
        ],
    }


def aggregate_to_file(n0: int, lo0: int, hi0: int, n1: int, lo1: int, hi1: int, n2: int, lo2: int, hi2: int) -> int:
    """
    pre: 0 <= n0 <= 5 and 0 <= n1 <= 5 and 0 <= n2 <= 5
    pre: lo0 <= hi0 and lo1 <= hi1 and lo2 <= hi2
    """
    stats = [_file([(n0, lo0, hi0), (n1, lo1, hi1)]), _file([(n2, lo2, hi2)])]
    agg = _aggregate_statistics_to_file(stats)
    if len(agg) != 2:
        return 2
    # lengths answered from statistics equal the sum of the row-group rows of each file
    if agg[0]["num_rows"] != n0 + n1 or agg[1]["num_rows"] != n2:
        return 2
    c0 = agg[0]["columns"][0]["statistics"]
    c1 = agg[1]["columns"][0]["statistics"]
    if c0["min"] != min(lo0, lo1) or c0["max"] != max(hi0, hi1) or c1["min"] != lo2 or c1["max"] != hi2:
        return 2
    return 1


HARNESSES.append(dict(module=__name__, fn="aggregate_to_file", props=["C18", "C06"], tier="quick", timeout=120,
                      bounds="2 files with 2 and 1 row groups; symbolic num_rows, min, max per row group",
                      functions=["dask_expr.io.parquet._aggregate_statistics_to_file", "_agg_dicts", "_aggregate_columns"]))


def _divs(files):
    agg = [{"columns": [{"path_in_schema": "idx", "statistics": {"min": lo, "max": hi}}]} for lo, hi in files]
    divisions, order = _divisions_from_statistics(agg, "idx")
    if divisions[0] is None:
        return 1
    if len(divisions) != len(files) + 1:
        return 2
    order = list(order)
    srt = [files[i] for i in order]
    for k, (lo, hi) in enumerate(srt):
        # the file placed at position k holds index values in [lo, hi]: they must lie inside the reported range
        if not (divisions[k] <= lo):
            return 2
        if k < len(srt) - 1:
            if hi > divisions[k + 1]:
                return 2  # overlapping files must not yield known divisions
        elif hi > divisions[-1]:
            return 2
    for a, b in zip(divisions, divisions[1:]):
        if a > b:
            return 2
    return 1


def divisions_from_statistics(flag: bool) -> int:
    """
    pre: True
    """
    import itertools

    # pandas (argsort of a Series of tuples) realises every symbolic value: exhaustive sweep over a small ordered domain
    ranges = [(lo, hi) for lo in range(4) for hi in range(lo, 4)]
    for n in (1, 2, 3):
        for files in itertools.product(ranges, repeat=n):
            if _divs(list(files)) != 1:
                return 2
    return 1


HARNESSES.append(dict(module=__name__, fn="divisions_from_statistics", props=["C18", "C06"], tier="quick", timeout=300, kind="sweep",
                      bounds="exhaustive: 1..3 files, every (min, max) over a 4-value ordered domain (pandas inside: no symbolic variable)",
                      functions=["dask_expr.io.parquet._divisions_from_statistics"]))
