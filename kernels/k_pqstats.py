"""C18 / C06: parquet statistics handling (dask_expr/io/parquet.py) with symbolic per-file / per-row-group statistics."""
from typing import Tuple

from dask_expr.io.parquet import _aggregate_statistics_to_file, _divisions_from_statistics

HARNESSES = []


def _file(rgs, name="idx"):
    """raw statistics of one file: list of (num_rows, min, max) per row group"""
    return {
        "num_rows": sum(r[0] for r in rgs), "num_row_groups": len(rgs), "serialized_size": 10,
        "row_groups": [
            {"num_rows": n, "total_byte_size": n * 8, "sorting_columns": None,
             "columns": [{"num_values": n, "total_compressed_size": n * 8, "total_uncompressed_size": n * 8, "path_in_schema": name,
                          "statistics": {"min": lo, "max": hi, "null_count": 0, "num_values": n, "distinct_count": None}}]}
            for n, lo, hi in rgs
        ],
    }


def aggregate_to_file(n0: int, lo0: int, hi0: int, n1: int, lo1: int, hi1: int, n2: int, lo2: int, hi2: int) -> int:
    """
    pre: 0 <= n0 <= 5 and 0 <= n1 <= 5 and 0 <= n2 <= 5
    pre: lo0 <= hi0 and lo1 <= hi1 and lo2 <= hi2
    """
    stats = [_file([(n0, lo0, hi0), (n1, lo1, hi1)]), _file([(n2, lo2, hi2)])]
    agg = _aggregate_statistics_to_file(stats)
    if len(agg) != 2:
        return 2
    # lengths answered from statistics equal the sum of the row-group rows of each file
    if agg[0]["num_rows"] != n0 + n1 or agg[1]["num_rows"] != n2:
        return 2
    c0 = agg[0]["columns"][0]["statistics"]
    c1 = agg[1]["columns"][0]["statistics"]
    if c0["min"] != min(lo0, lo1) or c0["max"] != max(hi0, hi1) or c1["min"] != lo2 or c1["max"] != hi2:
        return 2
    return 1


HARNESSES.append(dict(module=__name__, fn="aggregate_to_file", props=["C18", "C06"], tier="quick", timeout=120,
                      bounds="2 files with 2 and 1 row groups; symbolic num_rows, min, max per row group",
                      functions=["dask_expr.io.parquet._aggregate_statistics_to_file", "_agg_dicts", "_aggregate_columns"]))


def _divs(files):
    agg = [{"columns": [{"path_in_schema": "idx", "statistics": {"min": lo, "max": hi}}]} for lo, hi in files]
    divisions, order = _divisions_from_statistics(agg, "idx")
    if divisions[0] is None:
        return 1
    if len(divisions) != len(files) + 1:
        return 2
    order = list(order)
    srt = [files[i] for i in order]
    for k, (lo, hi) in enumerate(srt):
        # the file placed at position k holds index values in [lo, hi]: they must lie inside the reported range
        if not (divisions[k] <= lo):
            return 2
        if k < len(srt) - 1:
            if hi > divisions[k + 1]:
                return 2  # overlapping files must not yield known divisions
        elif hi > divisions[-1]:
            return 2
    for a, b in zip(divisions, divisions[1:]):
        if a > b:
            return 2
    return 1


def divisions_from_statistics(flag: bool) -> int:
    """
    pre: True
    """
    import itertools

    # pandas (argsort of a Series of tuples) realises every symbolic value: exhaustive sweep over a small ordered domain
    ranges = [(lo, hi) for lo in range(4) for hi in range(lo, 4)]
    for n in (1, 2, 3):
        for files in itertools.product(ranges, repeat=n):
            if _divs(list(files)) != 1:
                return 2
    return 1


HARNESSES.append(dict(module=__name__, fn="divisions_from_statistics", props=["C18", "C06"], tier="quick", timeout=300, kind="sweep",
                      bounds="exhaustive: 1..3 files, every (min, max) over a 4-value ordered domain (pandas inside: no symbolic variable)",
                      functions=["dask_expr.io.parquet._divisions_from_statistics"]))


# ---- partition lengths answered from statistics, with a partition selection (C18 / C11 / C06) ---------------------------------

def _sel_ok(sel, n):
    for i in sel:
        if not (0 <= i < n):
            return False
    return True


def pq_lengths_fsspec(n0: int, n1: int, n2: int, n3: int, s0: int, s1: int, filtered: bool, prefetched: bool) -> int:
    """
    pre: 0 <= n0 and 0 <= n1 and 0 <= n2 and 0 <= n3
    """
    import types
    from types import SimpleNamespace

    import dask_expr.io.parquet as pq

    rows = [n0, n1, n2, n3]
    sel = [s0, s1]
    if not _sel_ok(sel, 4):
        return 0
    stats = [{"num-rows": r} for r in rows]
    part_ids = sel if filtered else list(range(4))
    fake = SimpleNamespace(filters=None, _pq_length_stats=None, _plan={"statistics": stats if prefetched else None, "parts": list(range(4))},
                           _filtered=filtered, _partitions=part_ids)
    fake._update_length_statistics = types.MethodType(pq.ReadParquetFSSpec._update_length_statistics, fake)
    fake._io_func = SimpleNamespace(fs=None)
    saved = (pq._is_local_fs, pq._read_partition_stats_group)
    # the real _collect_pq_statistics chooses the parts; the footer reader behind it returns the statistics of the parts it is
    # handed, in that order
    pq._is_local_fs = lambda fs: True
    pq._read_partition_stats_group = lambda parts, fs, columns=None: [stats[p] for p in parts]
    try:
        got = pq.ReadParquetFSSpec._get_lengths(fake)
        again = pq.ReadParquetFSSpec._get_lengths(fake)  # the cached statistics must give the same answer
    finally:
        pq._is_local_fs, pq._read_partition_stats_group = saved
    want = tuple(rows[i] for i in part_ids)
    if got != want or again != want:
        return 2
    return 1


def pq_lengths_arrow(n0: int, n1: int, n2: int, s0: int, s1: int, o0: int, o1: int, o2: int, sorted_: bool) -> int:
    """
    pre: 0 <= n0 and 0 <= n1 and 0 <= n2
    """
    from types import SimpleNamespace

    import dask_expr.io.parquet as pq

    rows = [n0, n1, n2]
    sel = [s0, s1]
    order = [o0, o1, o2]
    if not _sel_ok(sel, 3) or sorted(order) != [0, 1, 2]:
        return 0
    # partition k of the collection is fragment order[k] (statistics-based ordering) or fragment k
    frag_of = order if sorted_ else [0, 1, 2]
    fake = SimpleNamespace(filters=None, aggregated_statistics=[{"num_rows": r} for r in rows], _partitions=sel, _filtered=True,
                           _fragment_sort_index=lambda: (order if sorted_ else None))
    got = pq.ReadParquetPyarrowFS._get_lengths(fake)
    want = tuple(rows[frag_of[i]] for i in sel)
    if got != want:
        return 2
    return 1


HARNESSES.append(dict(module=__name__, fn="pq_lengths_fsspec", props=["C18", "C11", "C06"], tier="quick", timeout=180,
                      bounds="4 partitions with symbolic row counts; a selection of 2 symbolic partition numbers (any order, repeats) or none; statistics pre-fetched or read on demand",
                      functions=["dask_expr.io.parquet.ReadParquetFSSpec._get_lengths", "ReadParquetFSSpec._update_length_statistics", "_collect_pq_statistics (footer reader stubbed)"],
                      api_replay="api_pq_lengths"))
HARNESSES.append(dict(module=__name__, fn="pq_lengths_arrow", props=["C18", "C11", "C06"], tier="quick", timeout=180,
                      bounds="3 fragments with symbolic row counts; a symbolic fragment ordering (statistics-based sort) or none; a selection of 2 symbolic partition numbers",
                      functions=["dask_expr.io.parquet.ReadParquetPyarrowFS._get_lengths"],
                      api_replay="api_pq_lengths"))


def api_pq_lengths(*args):
    """public API: partition lengths / len() of a partition-selected parquet read equal the computed row counts (both readers)"""
    import os
    import shutil
    import warnings

    import dask
    import pandas as pd
    from dask import delayed

    import dask_expr as dx
    from vf.common import WORK

    warnings.simplefilter("ignore")
    d = os.path.join(WORK, "pq_lengths")
    shutil.rmtree(d, ignore_errors=True)
    msgs = []
    with dask.config.set({"dataframe.convert-string": False}):
        lens = [1, 2, 3, 4]
        pdf = pd.DataFrame({"x": range(sum(lens))})
        chunks, s = [], 0
        for n in lens:
            chunks.append(pdf.iloc[s:s + n])
            s += n
        dx.from_delayed([delayed(c) for c in chunks], meta=pdf.iloc[:0], divisions=[0, 1, 3, 6, 9]).to_parquet(d)
        for kw in ({}, {"filesystem": "arrow"}):
            for sel in ([1, 3], [3, 1], [0, 0], [2]):
                r = dx.read_parquet(d, **kw)
                x = r.partitions[sel].optimize()
                want = [len(p) for p in dask.compute(*r.partitions[sel].to_delayed())]
                if len(x) != sum(want):
                    msgs.append(f"read_parquet({kw}).partitions[{sel}].optimize(): len() == {len(x)}, computed {sum(want)}")
    shutil.rmtree(d, ignore_errors=True)
    return bool(msgs), "; ".join(msgs[:3]) or "lengths of partition-selected parquet reads equal the computed counts"


# ---------------------------------------------------------------------------------------------- session histories over one real dataset (C15 / C18)

def _pq_dataset(tag):
    import os
    import tempfile

    import numpy as np
    import pandas as pd

    base = "/verif/.work/pq"
    os.makedirs(base, exist_ok=True)
    d = tempfile.mkdtemp(prefix=f"hist-{tag}-", dir=base)
    rows = [3, 1, 4, 2]  # different lengths per file, so that a length taken from the wrong file or the wrong read shows
    start = 0
    for i, n in enumerate(rows):
        pd.DataFrame({"a": np.arange(start, start + n), "b": np.arange(start, start + n) * 1.5, "c": 1}, index=pd.RangeIndex(start, start + n)).to_parquet(os.path.join(d, f"part.{i}.parquet"))
        start += n
    return d, rows


def pq_metadata_histories(flag: bool) -> int:
    """
    pre: True

    Every ordered pair / triple of metadata questions about one real dataset (lengths of column / partition selections, divisions) in one
    process - the plan, statistics and dataset-info caches are shared by every read of the path - answers each question as a fresh process does
    (the ground truth is computed from the files with pandas).  No symbolic variable: exhaustive over the stated question set.
    """
    import itertools
    import shutil

    import dask
    import dask_expr as dx

    dask.config.set({"dataframe.convert-string": False})
    for kw in ({}, {"filesystem": "arrow"}):
        questions = [
            ("len(all)", lambda df: len(df), lambda rows: sum(rows)),
            ("len([a].p[1])", lambda df: len(df[["a"]].partitions[[1]]), lambda rows: rows[1]),
            ("len([b].p[0])", lambda df: len(df[["b"]].partitions[[0]]), lambda rows: rows[0]),
            ("len(p[2,3])", lambda df: len(df.partitions[[2, 3]]), lambda rows: rows[2] + rows[3]),
            ("len([c])", lambda df: len(df[["c"]]), lambda rows: sum(rows)),
            ("len(a.p[3])", lambda df: len(df.a.partitions[[3]]), lambda rows: rows[3]),
            ("sum(a)", lambda df: int(df.a.sum().compute(scheduler="sync")), lambda rows: sum(range(sum(rows)))),
            ("len(filters)", lambda df: len(dx.read_parquet(df._verif_path, filters=[("a", ">", 3)], **kw).compute(scheduler="sync")), lambda rows: sum(rows) - 4),
            ("len((p[1]+1)[[a]])", lambda df: len((df.partitions[[1]] + 1)[["a"]].compute(scheduler="sync")), lambda rows: rows[1]),
        ]
        for k in (2, 3):
            for seq in itertools.permutations(range(len(questions)), k):
                if k == 3 and not (seq[0] in (1, 2, 7) or seq[1] in (1, 2, 7)):
                    continue  # triples: only those that go through a selecting / filtering read first (the others are covered by the pairs)
                d, rows = _pq_dataset("arrow" if kw else "fsspec")
                try:
                    for qi in seq:
                        name, ask, truth = questions[qi]
                        df = dx.read_parquet(d, **kw)
                        df._verif_path = d
                        got = ask(df)
                        if got != truth(rows):
                            return (f"{'arrow' if kw else 'fsspec'} reader, history {[questions[i][0] for i in seq]}: {name} answered {got}, the files hold {truth(rows)}",)
                finally:
                    shutil.rmtree(d, ignore_errors=True)
    return 1


HARNESSES.append(dict(module=__name__, fn="pq_metadata_histories", props=["C15", "C18"], tier="quick", timeout=600, kind="sweep",
                      bounds="exhaustive: ordered pairs (72) and the triples starting with a selecting / filtering read over 9 metadata / data questions about one real 4-file dataset, both readers (no symbolic variable)",
                      functions=["dask_expr.io.parquet.ReadParquetFSSpec._plan", "_update_length_statistics", "_get_lengths", "ReadParquetPyarrowFS._get_lengths", "_dataset_info", "_cached_plan"]))
