"""C15 / C16: planner caches.  The memoising functions run for real; the expensive computation behind them is a stub
whose result is an injective function of exactly the arguments it depends on; call arguments, the LRU capacity and the
cache history are symbolic."""
from types import SimpleNamespace
from typing import Tuple

import dask_expr._shuffle as _sh
import dask_expr._repartition as _rp
from dask_expr._util import LRU

HARNESSES = []


def _stub_calc(frame, other, npartitions, ascending=True, partition_size=128e6, upsample=1.0):
    return ("div", other._name, npartitions, ascending, partition_size, upsample)


def _history(cap, calls):
    saved_lru, saved_calc = _sh.divisions_lru, _sh._calculate_divisions
    _sh.divisions_lru = LRU(cap)
    _sh._calculate_divisions = _stub_calc
    try:
        for n, p, a in calls:
            other = SimpleNamespace(_name="other-%d" % n)
            got = _sh._get_divisions(None, other, p, a)
            if got != _stub_calc(None, other, p, a):
                return 2  # a cached value of another key was returned
            if len(_sh.divisions_lru) > cap:
                return 2  # the cache grew beyond its capacity
        return 1
    finally:
        _sh.divisions_lru, _sh._calculate_divisions = saved_lru, saved_calc


def get_divisions_history(flag: bool) -> int:
    """
    pre: True
    """
    import itertools

    # symbolic dict keys are out of CrossHair's reach (design probe): all histories up to the bound are enumerated instead
    args = [(n, p, a) for n in (0, 1, 2) for p in (1, 2) for a in (True, False)]
    for cap in (1, 2, 3):
        for k in (1, 2, 3):
            for calls in itertools.product(args, repeat=k):
                if _history(cap, calls) != 1:
                    return 2
    return 1


HARNESSES.append(dict(module=__name__, fn="get_divisions_history", props=["C15"], tier="quick", timeout=300, kind="sweep",
                      bounds="exhaustive: histories of <= 3 calls over 12 argument tuples (name x npartitions x ascending), LRU capacity 1..3 (no symbolic variable)",
                      functions=["dask_expr._shuffle._get_divisions", "dask_expr._util.LRU.__getitem__", "LRU.__setitem__"]))


def mem_usages_history(cap: int, n0: int, n1: int, n2: int, n3: int) -> int:
    """
    pre: 1 <= cap <= 2
    pre: 0 <= n0 <= 2 and 0 <= n1 <= 2 and 0 <= n2 <= 2 and 0 <= n3 <= 2
    """
    saved_lru, saved = _rp.mem_usages_lru, _rp._compute_mem_usages
    _rp.mem_usages_lru = LRU(cap)
    _rp._compute_mem_usages = lambda frame: ("mem", frame._name)
    try:
        for n in (n0, n1, n2, n3):
            frame = SimpleNamespace(_name="frame-%d" % n)
            if _rp._get_mem_usages(frame) != ("mem", frame._name):
                return 2
            if len(_rp.mem_usages_lru) > cap:
                return 2
        return 1
    finally:
        _rp.mem_usages_lru, _rp._compute_mem_usages = saved_lru, saved


HARNESSES.append(dict(module=__name__, fn="mem_usages_history", props=["C15"], tier="quick", timeout=200,
                      bounds="4 calls with symbolic frame names in 0..2, LRU capacity in {1,2}",
                      functions=["dask_expr._repartition._get_mem_usages", "dask_expr._util.LRU"]))


def _lru(cap, keys, g):
    lru = LRU(cap)
    model = []  # most recent last
    for k in keys:
        if k in lru:
            if lru[k] != k * 10:
                return 2
            model.remove(k)
            model.append(k)
        else:
            lru[k] = k * 10
            if len(model) >= cap:
                model.pop(0)
            model.append(k)
        if sorted(lru.keys()) != sorted(model) or len(lru) > cap:
            return 2
    if g in lru:
        return 1 if lru[g] == g * 10 and g in model else 2
    return 1 if g not in model else 2


def lru_model(flag: bool) -> int:
    """
    pre: True
    """
    import itertools

    for cap in (1, 2, 3):
        for n in range(1, 6):
            for keys in itertools.product(range(4), repeat=n):
                for g in range(4):
                    if _lru(cap, keys, g) != 1:
                        return 2
    return 1


HARNESSES.append(dict(module=__name__, fn="lru_model", props=["C15"], tier="quick", timeout=300, kind="sweep",
                      bounds="exhaustive: all sequences of <= 5 insert/lookup keys over 4 keys, capacity 1..3, against a reference least-recently-looked-up model (no symbolic variable)",
                      functions=["dask_expr._util.LRU.__getitem__", "LRU.__setitem__"]))
