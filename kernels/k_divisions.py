"""C06 / C11: divisions reported by partition-selecting and slicing operators (CrossHair on the real methods).

Symbolic: division values, selected partition numbers, the tracked row (index value v in source partition p),
slice bounds.  Postcondition (truthfulness): if known divisions are reported they have npartitions+1 entries, are
sorted (last two may be equal), and the tracked row, wherever the operator's own layer/task places it, lies
inside the reported range of that output partition."""
from types import SimpleNamespace
from typing import Tuple

from dask.dataframe import methods
from dask_expr._expr import Partitions, PartitionsFiltered, Head, Tail, BlockwiseHead
from dask_expr._indexing import LocSlice
from dask_expr.io.io import FusedIO

from kernels._kutil import valid_divs, in_part

HARNESSES = []


class _Frame:
    """a stand-in source: known divisions, n partitions"""

    def __init__(self, divs, name="src"):
        self.divisions = tuple(divs)
        self._name = name
        self.npartitions = len(divs) - 1
        self.known_divisions = divs[0] is not None

    def _divisions(self):
        return self.divisions


def _truthful(out, nparts):
    """structure of reported known divisions"""
    if len(out) != nparts + 1:
        return False
    if out[0] is None:
        return all(x is None for x in out)
    return valid_divs(out) if nparts >= 1 else False


class _Parts(Partitions):
    _name = "parts"

    def __new__(cls, *a, **k):
        return object.__new__(cls)

    def __init__(self, frame, partitions):
        self.operands = [frame, partitions]


def _partitions(d, sel, v, p):
    if not valid_divs(d):
        return 0
    n = len(d) - 1
    for s in sel:
        if not (0 <= s < n):
            return 0
    if not in_part(d, p, v):
        return 0
    e = _Parts(_Frame(d), list(sel))
    out = tuple(e._divisions())
    if not _truthful(out, len(sel)):
        return 2
    if out[0] is None:
        return 1
    for i, s in enumerate(sel):
        # output partition i is source partition s (Partitions._task)
        if e._task(i) != ("src", s):
            return 2
        if s == p and not in_part(out, i, v):
            return 2
    return 1


def partitions_1(d: Tuple[int, int, int, int], s0: int, v: int, p: int) -> int:
    """
    pre: 0 <= p < 3
    """
    return _partitions(d, (s0,), v, p)


def partitions_2(d: Tuple[int, int, int, int], s0: int, s1: int, v: int, p: int) -> int:
    """
    pre: 0 <= p < 3
    """
    return _partitions(d, (s0, s1), v, p)


def partitions_3(d: Tuple[int, int, int, int, int], s0: int, s1: int, s2: int, v: int, p: int) -> int:
    """
    pre: 0 <= p < 4
    """
    return _partitions(d, (s0, s1, s2), v, p)


for _f, _b in (("partitions_1", "3 partitions, 1 selected"), ("partitions_2", "3 partitions, 2 selected (any order, repeats)"), ("partitions_3", "4 partitions, 3 selected")):
    HARNESSES.append(dict(module=__name__, fn=_f, props=["C06", "C11"], tier="quick", timeout=120,
                          bounds=_b + "; division values, selection, tracked row symbolic",
                          functions=["dask_expr._expr.Partitions._divisions", "Partitions._task"], api_replay="api_partitions"))


def api_partitions(d, *rest):
    """public API: from_pandas frame with index values at the division points, df.partitions[sel]"""
    import pandas as pd, dask
    import dask_expr as dx
    from dask import delayed

    *sel, v, p = rest
    rows = sorted({(i, d[i]) for i in range(len(d) - 1)} | {(len(d) - 2, d[-1]), (p, v)})
    pdf = pd.DataFrame({"x": range(len(rows))}, index=[r[1] for r in rows])
    parts = [pdf.iloc[[k for k, (q, _) in enumerate(rows) if q == i]] for i in range(len(d) - 1)]
    with dask.config.set({"dataframe.convert-string": False}):
        df = dx.from_delayed([delayed(x) for x in parts], meta=pdf.iloc[:0], divisions=tuple(d))
        out = df.partitions[list(sel)]
        divs = out.optimize().divisions
        if divs[0] is None:
            return False, f"divisions unknown: {divs}"
        got = [out.partitions[i].compute() for i in range(out.npartitions)]
    bad = [(i, g.index.tolist(), divs) for i, g in enumerate(got) if not all(in_part(divs, i, int(x)) for x in g.index)]
    unsorted = not valid_divs(divs)
    return (bool(bad) or unsorted), f"reported divisions {divs}; partitions {[g.index.tolist() for g in got]}"


# ---- PartitionsFiltered.divisions (sources with a _partitions operand)

class _PF(PartitionsFiltered):
    _parameters = ["_partitions"]
    _name = "pf"

    def __new__(cls, *a, **k):
        return object.__new__(cls)

    def __init__(self, divs, parts):
        self.operands = [parts]
        self._d = divs

    def _divisions(self):
        return self._d


def _pf(d, sel, v, p):
    if not valid_divs(d):
        return 0
    n = len(d) - 1
    for s in sel:
        if not (0 <= s < n):
            return 0
    if not in_part(d, p, v):
        return 0
    e = _PF(tuple(d), list(sel))
    out = e.divisions
    if e.npartitions != len(sel):
        return 2
    if not _truthful(out, len(sel)):
        return 2
    if out[0] is None:
        return 1
    for i, s in enumerate(sel):
        if s == p and not in_part(out, i, v):
            return 2
    return 1


def filtered_2(d: Tuple[int, int, int, int], s0: int, s1: int, v: int, p: int) -> int:
    """
    pre: 0 <= p < 3
    """
    return _pf(d, (s0, s1), v, p)


def filtered_3(d: Tuple[int, int, int, int, int], s0: int, s1: int, s2: int, v: int, p: int) -> int:
    """
    pre: 0 <= p < 4
    """
    return _pf(d, (s0, s1, s2), v, p)


for _f in ("filtered_2", "filtered_3"):
    HARNESSES.append(dict(module=__name__, fn=_f, props=["C06", "C11"], tier="quick", timeout=120,
                          bounds="3-4 partitions, 2-3 selected (any order, repeats); division values, selection, tracked row symbolic",
                          functions=["dask_expr._expr.PartitionsFiltered.divisions", "PartitionsFiltered.npartitions"]))


# ---- FusedIO (multi-file reads fused into buckets)

class _IOExpr:
    def __init__(self, divs, parts, factor):
        self._d, self._partitions, self._fusion_compression_factor = divs, parts, factor
        self._funcname = "readx"

    def _divisions(self):
        return self._d

    def _filtered_task(self, i):
        return ("read", i)


class _Fused(FusedIO):
    _name = "fusedio"

    def __new__(cls, *a, **k):
        return object.__new__(cls)

    def __init__(self, e):
        self.operands = [e]


def _fused_io(d, nsel, skip, num, v, p):
    parts = list(range(5))[skip:][:nsel]  # a (contiguous, increasing) selection of source partitions
    if not parts or p not in parts:
        return 0
    e = _Fused(_IOExpr(tuple(d), parts, num / 4))
    buckets = e._fusion_buckets
    out = tuple(e._divisions())
    if e.npartitions != len(buckets):
        return 2
    # every selected source partition is read exactly once, in order
    flat = [i for b in buckets for i in b]
    if flat != parts:
        return 2
    if not _truthful(out, len(buckets)):
        return 2
    for k, b in enumerate(buckets):
        t = e._task(k)
        if t[0] is not methods.concat or [x[1] for x in t[1]] != list(b):
            return 2
        if p in b and not in_part(out, k, v):
            return 2
    return 1


def fused_io(d: Tuple[int, int, int, int, int, int], v: int, p: int) -> int:
    """
    pre: 0 <= p < 5
    """
    if not valid_divs(d) or not in_part(d, p, v):
        return 0
    seen = 0
    # selection size / offset / compression factor are concrete (the bucket arithmetic uses floats), enumerated exhaustively
    for nsel in range(1, 6):
        for skip in (0, 1):
            for num in (1, 2, 3, 4):
                r = _fused_io(d, nsel, skip, num, v, p)
                if r == 2:
                    return 2
                seen |= r
    return seen


HARNESSES.append(dict(module=__name__, fn="fused_io", props=["C06", "C18", "C09"], tier="quick", timeout=120,
                      bounds="5 source partitions (6 symbolic division values), all contiguous selections x compression factors k/4 enumerated, tracked row symbolic",
                      functions=["dask_expr.io.io.FusedIO._fusion_buckets", "FusedIO._divisions", "FusedIO._task", "FusedIO.npartitions"], api_replay="api_fused_io"))


def api_fused_io(d, v, p):
    """the real bookkeeping on a real parquet dataset needs files; replay on the stub with concrete values suffices to
    show the arithmetic, the end-to-end reproduction is probes/repro_fused_divisions.py"""
    return None, "stub-level replay"


# ---- head / tail

class _Head(Head):
    _name = "head"

    def __new__(cls, *a, **k):
        return object.__new__(cls)

    def __init__(self, frame, n, npartitions):
        self.operands = [frame, n, npartitions]


class _Tail(Tail):
    _name = "tail"

    def __new__(cls, *a, **k):
        return object.__new__(cls)

    def __init__(self, frame, n):
        self.operands = [frame, n]


def head_tail(d: Tuple[int, int, int, int], k: int, v: int, p: int) -> int:
    """
    pre: -1 <= k <= 3 and k != 0
    pre: 0 <= p < 3
    """
    if not valid_divs(d) or not in_part(d, p, v):
        return 0
    f = _Frame(d)
    h = _Head(f, 2, k)
    out = tuple(h._divisions())
    if len(out) != 2 or not (out[0] <= out[1]):
        return 2
    used = h._partitions
    if k == -1:
        if list(used) != [0, 1, 2]:
            return 2
    elif list(used) != list(range(k)):
        return 2
    if p in used and not (out[0] <= v <= out[1]):
        return 2
    # when fewer than all partitions are used the upper bound is exclusive for rows of the used partitions
    t = _Tail(f, 2)
    tout = tuple(t._divisions())
    if len(tout) != 2:
        return 2
    if p == 2 and not (tout[0] <= v <= tout[1]):
        return 2
    return 1


HARNESSES.append(dict(module=__name__, fn="head_tail", props=["C06", "C11"], tier="quick", timeout=90,
                      bounds="3 partitions, head npartitions in {-1,1,2,3}, symbolic divisions and tracked row",
                      functions=["dask_expr._expr.Head._divisions", "Head._partitions", "Tail._divisions"]))


# ---- loc slices

class _LS(LocSlice):
    _name = "loc"

    def __new__(cls, *a, **k):
        return object.__new__(cls)

    def __init__(self, frame, iindexer, cindexer=None):
        self.operands = [frame, iindexer, cindexer]


def _rows(layer, key, v, p):
    t = layer[key]
    if isinstance(t, tuple) and t and t[0] is methods.loc:
        _, src, sl, c = t
        if src[1] != p:
            return 0
        if sl.start is not None and v < sl.start:
            return 0
        if sl.stop is not None and v > sl.stop:
            return 0
        return 1
    if isinstance(t, tuple) and len(t) == 2 and t[0] == "src":
        return 1 if t[1] == p else 0
    raise AssertionError(t)


def loc_slice(d: Tuple[int, int, int, int], lo: int, hi: int, has_lo: bool, has_hi: bool, v: int, p: int) -> int:
    """
    pre: 0 <= p < 3
    """
    if not valid_divs(d) or not in_part(d, p, v):
        return 0
    sl = slice(lo if has_lo else None, hi if has_hi else None)
    e = _LS(_Frame(d), sl, None)
    try:
        layer = e._layer()
        out = tuple(e._divisions())
    except KeyError:
        return 0
    n = len(out) - 1
    if sorted(k[1] for k in layer) != list(range(n)):
        return 2
    if n < 1 or not all(out[i] <= out[i + 1] for i in range(n)):
        return 2  # reported divisions are not sorted
    want = (not has_lo or v >= lo) and (not has_hi or v <= hi)  # pandas: df.loc[lo:hi] keeps lo <= idx <= hi
    tot = 0
    for j in range(n):
        c = _rows(layer, ("loc", j), v, p)
        if c and not (out[j] <= v and (v < out[j + 1] or (j == n - 1 and v <= out[j + 1]))):
            return 2
        tot += c
    return 1 if tot == (1 if want else 0) else 2


HARNESSES.append(dict(module=__name__, fn="loc_slice", props=["C06", "C02"], tier="quick", timeout=240,
                      bounds="3 partitions (4 symbolic division values), symbolic optional slice bounds (incl. start > stop), tracked row symbolic",
                      functions=["dask_expr._indexing.LocSlice.start", "LocSlice.stop", "LocSlice.istart", "LocSlice.istop", "LocSlice._divisions", "LocSlice._layer"],
                      api_replay="api_loc_slice"))


def api_loc_slice(d, lo, hi, has_lo, has_hi, v, p):
    import pandas as pd, dask
    import dask_expr as dx
    from dask import delayed

    rows = sorted({(i, d[i]) for i in range(len(d) - 1)} | {(len(d) - 2, d[-1]), (p, v)})
    pdf = pd.DataFrame({"x": range(len(rows))}, index=[r[1] for r in rows])
    parts = [pdf.iloc[[k for k, (q, _) in enumerate(rows) if q == i]] for i in range(len(d) - 1)]
    sl = slice(lo if has_lo else None, hi if has_hi else None)
    with dask.config.set({"dataframe.convert-string": False}):
        df = dx.from_delayed([delayed(x) for x in parts], meta=pdf.iloc[:0], divisions=tuple(d))
        try:
            out = df.loc[sl]
            divs = out.divisions
            got = [out.partitions[i].compute() for i in range(out.npartitions)]
        except Exception as e:
            return None, f"public API raised {type(e).__name__}: {e}"
    exp = pdf.loc[sl] if pdf.index.is_monotonic_increasing else pdf[(pdf.index >= (lo if has_lo else pdf.index.min())) & (pdf.index <= (hi if has_hi else pdf.index.max()))]
    cat = pd.concat(got)
    bad_rows = cat.x.tolist() != exp.x.tolist()
    bad_divs = not all(divs[i] <= divs[i + 1] for i in range(len(divs) - 1)) or any(not all(in_part(divs, i, int(x)) for x in g.index) for i, g in enumerate(got))
    return (bad_rows or bad_divs), f"loc[{sl}] -> rows {cat.index.tolist()} (pandas {exp.index.tolist()}), divisions {divs}"
