"""Helpers shared by the CrossHair harnesses (pure Python over ints, so CrossHair keeps them symbolic)."""
from dask.dataframe import methods
from dask.dataframe.core import _concat
from operator import getitem


def valid_divs(d):
    """dask's validity predicate for known divisions: strictly increasing except that the last two may be equal."""
    n = len(d)
    if n < 2:
        return False
    for i in range(n - 2):
        if not d[i] < d[i + 1]:
            return False
    return d[-2] <= d[-1]


def in_part(d, p, v):
    """row with index value v may live in partition p of a frame with (truthful) divisions d"""
    n = len(d) - 1
    if not (0 <= p < n):
        return False
    if v < d[p]:
        return False
    if v < d[p + 1]:
        return True
    return p == n - 1 and v == d[p + 1]


def istask(t):
    return isinstance(t, tuple) and len(t) > 0 and callable(t[0])


def locate(dsk, key, v, p, src, depth=0):
    """All places (as paths of positions) where tracked row (index value v, source partition p of frame `src`)
    occurs in graph value `key`.  Understands boundary_slice / concat / _concat / alias / direct source keys."""
    if depth > 12:
        raise AssertionError("graph too deep / cyclic")
    if isinstance(key, tuple) and len(key) == 2 and key[0] == src and isinstance(key[1], int) and key not in dsk:
        return [()] if key[1] == p else []
    t = dsk[key]
    if istask(t):
        f = t[0]
        if f is methods.boundary_slice:
            _, s, lo, hi, right = t
            inner = locate(dsk, s, v, p, src, depth + 1)
            if not inner:
                return []
            if v < lo or v > hi or (v == hi and not right):
                return []
            return inner
        if f is methods.concat or f is _concat:
            out = []
            for pos, k in enumerate(t[1]):
                for loc in locate(dsk, k, v, p, src, depth + 1):
                    out.append((pos,) + loc)
            return out
        raise AssertionError(f"unmodelled task {t!r}")
    if isinstance(t, tuple) and len(t) == 2 and isinstance(t[0], str):
        return locate(dsk, t, v, p, src, depth + 1)
    raise AssertionError(f"unmodelled graph value {t!r}")


def closed(dsk, name, nout, deps):
    """C09 structure for one layer: outputs defined; every referenced key is defined here or is a declared
    dependency key (dep name -> npartitions).  Returns '' or a description of the defect."""
    for i in range(nout):
        if (name, i) not in dsk:
            return f"output key {(name, i)} missing"

    def refs(t):
        if isinstance(t, tuple) and len(t) == 2 and isinstance(t[0], str) and isinstance(t[1], int) and not callable(t[0]):
            yield t
        elif isinstance(t, (tuple, list)):
            for x in t:
                yield from refs(x)
        elif isinstance(t, dict):
            for x in t.values():
                yield from refs(x)

    for k, t in dsk.items():
        body = t[1:] if istask(t) else (t,)
        for r in refs(body):
            if r in dsk:
                continue
            if r[0] in deps and 0 <= r[1] < deps[r[0]]:
                continue
            return f"key {r} referenced by {k} is neither defined nor a dependency key"
    return ""


def acyclic(dsk):
    """a rank function exists (DFS with colouring)"""
    state = {}

    def refs(t):
        if isinstance(t, tuple) and len(t) >= 2 and isinstance(t[0], str) and all(isinstance(x, (int, str)) for x in t[1:]) and t in dsk:
            yield t
        elif isinstance(t, (tuple, list)):
            for x in t:
                yield from refs(x)
        elif isinstance(t, dict):
            for x in t.values():
                yield from refs(x)

    def visit(k, depth):
        if depth > 64:
            return False
        s = state.get(k)
        if s == 1:
            return False
        if s == 2:
            return True
        state[k] = 1
        t = dsk[k]
        for r in refs(t[1:] if istask(t) else (t,)):
            if not visit(r, depth + 1):
                return False
        state[k] = 2
        return True

    return all(visit(k, 0) for k in list(dsk))
