"""C13 / C06 / C09: repartition kernels of dask_expr/_repartition.py under CrossHair.

Symbolic: every division value, `force`, two tracked rows (index value, source partition).
Concrete (enumerated): tuple lengths.  Real code executed: RepartitionDivisions._layer, RepartitionToFewer.
_partitions_boundaries/_divisions/_layer (with the float expression replaced by its integer meaning *only* as
far as lemma T proves, see k_tofewer), RepartitionToMore._nsplits/_layer/_divisions, _clean_new_division_boundaries.
"""
from types import SimpleNamespace
from typing import Tuple

from dask_expr._repartition import (
    RepartitionDivisions,
    RepartitionToFewer,
    RepartitionToMore,
    _clean_new_division_boundaries,
)
from dask.dataframe.core import split_evenly
from operator import getitem

from kernels._kutil import valid_divs, in_part, locate, closed, acyclic, istask

HARNESSES = []


def _rd(a, b, rows, force):
    """rows: 1 or 2 tracked rows (v, p); with 2 rows, row 1 precedes row 2 in the input."""
    if not (valid_divs(a) and valid_divs(b)):
        return 0
    for v, p in rows:
        if not in_part(a, p, v):
            return 0
    if len(rows) == 2:
        (v1, p1), (v2, p2) = rows
        # partitions are sorted by index (precondition under which slicing by index ranges can keep order at all)
        if not (p1 < p2 or (p1 == p2 and v1 < v2)):
            return 0
    self = SimpleNamespace(_name="rep-tok", frame=SimpleNamespace(divisions=a, _name="src"), new_divisions=b, force=force)
    covered = (a[0] >= b[0] and a[-1] <= b[-1]) if force else (a[0] == b[0] and a[-1] == b[-1])
    try:
        d = RepartitionDivisions._layer(self)
    except ValueError:
        # rejecting is right exactly when the old range is not covered
        return 2 if covered else 1
    if not covered:
        return 2  # accepted a request that loses the range guarantee
    nout = len(b) - 1
    if len(rows) == 1 and closed(d, "rep-tok", nout, {"src": len(a) - 1}):
        return 2
    locs = []
    for v, p in rows:
        found = []
        for j in range(nout):
            for loc in locate(d, ("rep-tok", j), v, p, "src"):
                if not in_part(b, j, v):
                    return 2  # row lands outside the reported range of its output partition
                found.append((j,) + loc)
        if len(found) != 1:
            return 2  # row lost or duplicated
        locs.append(found[0])
    if len(rows) == 2 and locs[0] > locs[1]:
        return 2  # order of the two rows swapped
    return 1


def _mk(na, nb, force, pair):
    ta = ", ".join(["int"] * na)
    tb = ", ".join(["int"] * nb)
    if not pair:
        name = f"rd1_{na}_{nb}_{'f' if force else 'n'}"
        src = f'''
def {name}(a: Tuple[{ta}], b: Tuple[{tb}], v: int, p: int) -> int:
    """
    pre: 0 <= p < {na - 1}
    """
    return _rd(a, b, [(v, p)], {force})
'''
    else:
        name = f"rd2_{na}_{nb}_{'f' if force else 'n'}"
        src = f'''
def {name}(a: Tuple[{ta}], b: Tuple[{tb}], v1: int, p1: int, v2: int, p2: int) -> int:
    """
    pre: 0 <= p1 <= p2 < {na - 1}
    """
    return _rd(a, b, [(v1, p1), (v2, p2)], {force})
'''
    exec(src, globals())
    return name


for _na in range(2, 6):
    for _nb in range(2, 6):
        for _force in (False, True):
            for _pair in (False, True):
                _n = _mk(_na, _nb, _force, _pair)
                _big = max(_na, _nb) + (1 if _pair and (_force or min(_na, _nb) < 4) and max(_na, _nb) == 4 else 0)
                HARNESSES.append(dict(
                    module=__name__, fn=_n, props=["C13", "C06"] if not _pair else ["C13"],
                    tier="quick" if _big <= 4 else "thorough",
                    timeout=150 if _big <= 4 else 900,
                    bounds=f"old divisions: {_na} symbolic ints, new divisions: {_nb} symbolic ints (all valid tuples incl. repeated last "
                           f"value), force={_force}, {'two tracked rows (order)' if _pair else 'one tracked row (multiplicity, range, rejection)'} "
                           f"with symbolic index value and source partition",
                    functions=["dask_expr._repartition.RepartitionDivisions._layer"],
                    api_replay=("api_rd2" if _pair else "api_rd1") + ("_f" if _force else ""),
                ))


def api_rd1(a, b, v, p, force=False):
    return api_rd(a, b, v, p, v, p, force)


def api_rd2(a, b, v1, p1, v2, p2, force=False):
    return api_rd(a, b, v1, p1, v2, p2, force)


def api_rd1_f(a, b, v, p):
    return api_rd(a, b, v, p, v, p, True)


def api_rd2_f(a, b, v1, p1, v2, p2):
    return api_rd(a, b, v1, p1, v2, p2, True)


def api_rd(a, b, v1, p1, v2, p2, force):
    """Replay through the public API: a real frame whose index holds the tracked values, repartition(divisions=b)."""
    import pandas as pd, dask, warnings
    import dask_expr as dx
    rows = sorted({(p1, v1), (p2, v2)} | {(i, a[i]) for i in range(len(a) - 1)} | {(len(a) - 2, a[-1])})
    rows = [(p, v) for p, v in rows if in_part(a, p, v)]
    pdf = pd.DataFrame({"x": range(len(rows))}, index=[v for _, v in rows])
    from dask_expr.io.io import FromPandas
    with dask.config.set({"dataframe.convert-string": False}), warnings.catch_warnings():
        warnings.simplefilter("ignore")
        parts = [pdf.iloc[[k for k, (p, _) in enumerate(rows) if p == q]] for q in range(len(a) - 1)]
        import dask.delayed as _d
        from dask import delayed
        df = dx.from_delayed([delayed(x) for x in parts], meta=pdf.iloc[:0], divisions=tuple(a))
        covered = (a[0] >= b[0] and a[-1] <= b[-1]) if force else (a[0] == b[0] and a[-1] == b[-1])
        try:
            out = df.repartition(divisions=list(b), force=force)
            got = [out.partitions[i].compute() for i in range(out.npartitions)]
        except ValueError as e:
            return (covered, f"public API raised ValueError({e}) with covered={covered}")
        if not covered:
            return True, "public API accepted an uncovered range"
        cat = pd.concat(got)
        ok = cat.x.tolist() == pdf.x.tolist() and all(
            all(in_part(b, j, int(v)) for v in g.index) for j, g in enumerate(got))
        return (not ok), f"public API result rows={cat.x.tolist()} index={cat.index.tolist()} parts={[g.index.tolist() for g in got]} expected rows={pdf.x.tolist()}"


# --- count-based repartitioning -------------------------------------------------------------------------------

def clean_boundaries(b: Tuple[int, int, int, int], n: int) -> int:
    """
    pre: 0 <= n <= 12
    pre: all(0 <= x <= 12 for x in b)
    """
    # precondition provided by lemma T (smt/): strictly increasing, b[-2] < n, b[-1] <= n
    for i in range(len(b) - 1):
        if not b[i] < b[i + 1]:
            return 0
    if not (b[-2] < n and b[-1] <= n):
        return 0
    out = _clean_new_division_boundaries(list(b), n)
    if out[0] != 0 or out[-1] != n:
        return 2
    for i in range(len(out) - 1):
        if not out[i] < out[i + 1]:
            return 2
    return 1


HARNESSES.append(dict(module=__name__, fn="clean_boundaries", props=["C13"], tier="quick", timeout=60,
                      bounds="4 symbolic boundaries in 0..12, n in 0..12, assuming lemma T's three facts",
                      functions=["dask_expr._repartition._clean_new_division_boundaries"]))


class _Fewer(RepartitionToFewer):
    _name = "few-tok"

    def __new__(cls, *a, **k):
        return object.__new__(cls)

    def __init__(self, frame, n):
        self.operands = [frame, n]


def _to_fewer(n_in, n_out, divs, p):
    frame = SimpleNamespace(_name="src", npartitions=n_in, divisions=divs)
    e = _Fewer(frame, n_out)
    layer = e._layer()
    out_divs = e._divisions()
    bnd = e._partitions_boundaries
    n = len(bnd) - 1
    if len(out_divs) != n + 1:
        return 2
    if closed(layer, "few-tok", n, {"src": n_in}):
        return 2
    # every input partition is used exactly once and in order
    seq = []
    for i in range(n):
        t = layer[("few-tok", i)]
        for k in t[1]:
            seq.append(k[1])
    if seq != list(range(n_in)):
        return 2
    # divisions truthful: partition p's range lies inside its output partition's reported range
    for i in range(n):
        ks = [k[1] for k in layer[("few-tok", i)][1]]
        if p in ks:
            if not (out_divs[i] <= divs[p] and divs[p + 1] <= out_divs[i + 1]):
                return 2
    if out_divs[0] != divs[0] or out_divs[-1] != divs[-1]:
        return 2
    return 1


def to_fewer(d: Tuple[int, int, int, int, int, int, int, int, int], p: int) -> int:
    """
    pre: 0 <= p < 8
    """
    for i in range(len(d) - 2):
        if not d[i] < d[i + 1]:
            return 0
    if not d[-2] <= d[-1]:
        return 0
    # counts are concrete (the float expression int(i * (n_in / n_out)) runs natively); division values symbolic
    for n_in in range(2, 9):
        if p >= n_in:
            continue
        for n_out in range(1, n_in):
            r = _to_fewer(n_in, n_out, d[: n_in + 1], p)
            if r != 1:
                return r
    return 1


HARNESSES.append(dict(module=__name__, fn="to_fewer", props=["C13", "C06", "C09"], tier="quick", timeout=180,
                      bounds="all (n_in, n_out) with n_out < n_in <= 8 enumerated, 9 symbolic division values, symbolic tracked source partition; "
                             "larger counts by lemma T",
                      functions=["dask_expr._repartition.RepartitionToFewer._partitions_boundaries", "RepartitionToFewer._layer",
                                 "RepartitionToFewer._divisions", "_clean_new_division_boundaries"]))


class _More(RepartitionToMore):
    _name = "more-tok"

    def __new__(cls, *a, **k):
        return object.__new__(cls)

    def __init__(self, frame, n):
        self.operands = [frame, n]


def to_more(n_in: int, n_out: int, p: int) -> int:
    """
    pre: 1 <= n_in < n_out <= 9
    pre: 0 <= p < n_in
    """
    frame = SimpleNamespace(_name="src", npartitions=n_in, divisions=(None,) * (n_in + 1))
    e = _More(frame, n_out)
    ns = e._nsplits
    if sum(ns) != n_out or len(ns) != n_in or any(k < 1 for k in ns):
        return 2
    layer = e._layer()
    if len(e._divisions()) != n_out + 1:
        return 2
    if closed(layer, "more-tok", n_out, {"src": n_in}):
        return 2
    # output partitions, in order, are: the pieces 0..k-1 of input 0, then of input 1, ... (order kept, nothing dropped)
    want = []
    for i, k in enumerate(ns):
        want += [(i, None)] if k == 1 else [(i, jj) for jj in range(k)]
    got = []
    for j in range(n_out):
        t = layer[("more-tok", j)]
        if istask(t) and t[0] is getitem:
            s = layer[t[1]]
            if not (istask(s) and s[0] is split_evenly and s[2] == ns[s[1][1]]):
                return 2
            got.append((s[1][1], t[2]))
        else:
            got.append((t[1], None))
    return 1 if got == want else 2


HARNESSES.append(dict(module=__name__, fn="to_more", props=["C13", "C09"], tier="quick", timeout=120,
                      bounds="1 <= n_in < n_out <= 9 symbolic", functions=["dask_expr._repartition.RepartitionToMore._nsplits",
                                                                          "RepartitionToMore._layer", "RepartitionToMore._divisions"]))
