"""C15 / C16 / C17 / C18 / C19: names and cache keys identify everything the named / cached value depends on.

The key-building code runs for real.  What it is keyed *into* (the LRU / dict) is replaced by a recorder that never hashes,
and the tokenizer is replaced by an injective stand-in that keeps its arguments, so that the key stays a structure over the
symbolic inputs.  Obligation (decided by CrossHair/z3 over all values of the symbolic components): two calls that produce
equal keys / names were made with equal values of every component the result depends on."""
from types import SimpleNamespace
from typing import Tuple

import dask_expr._shuffle as _sh
import dask_expr._repartition as _rp

HARNESSES = []


class _Rec:
    """stands for the cache: always misses, records the keys that the real code stores under (no hashing)"""

    def __init__(self):
        self.keys, self.vals = [], []

    def __contains__(self, k):
        return False

    def __len__(self):
        return 0

    def __setitem__(self, k, v):
        self.keys.append(k)
        self.vals.append(v)

    def __getitem__(self, k):
        return self.vals[-1]

    def pop(self, *a):
        return None

    def keys_(self):
        return self.keys


class _Tok:
    """injective stand-in for tokenize(*args): remembers the arguments; survives `prefix + "-" + token`"""

    def __init__(self, args, prefix=()):
        self.args, self.prefix = args, prefix

    def __radd__(self, other):
        return _Tok(self.args, (other,) + self.prefix)

    def __eq__(self, other):
        return isinstance(other, _Tok) and self.prefix == other.prefix and _same(self.args, other.args)

    def __ne__(self, other):
        return not self.__eq__(other)

    __hash__ = None


def _same(a, b):
    if isinstance(a, (tuple, list)) and isinstance(b, (tuple, list)):
        if len(a) != len(b):
            return False
        for x, y in zip(a, b):
            if not _same(x, y):
                return False
        return True
    if isinstance(a, dict) and isinstance(b, dict):
        if list(a.keys()) != list(b.keys()):
            return False
        for k in a:
            if not _same(a[k], b[k]):
                return False
        return True
    if isinstance(a, SimpleNamespace) and isinstance(b, SimpleNamespace):
        return _same(vars(a), vars(b))
    return type(a) is type(b) and a == b if not isinstance(a, (int, bool)) else a == b


def _tok(*args, **kw):
    return _Tok(args)


# ---------------------------------------------------------------------------------------------- _get_divisions

def divisions_key(n1: int, p1: int, a1: bool, s1: int, u1: int, n2: int, p2: int, a2: bool, s2: int, u2: int) -> int:
    """
    pre: True
    """
    saved = (_sh.divisions_lru, _sh._calculate_divisions)
    rec = _Rec()
    _sh.divisions_lru = rec
    _sh._calculate_divisions = lambda frame, other, npartitions, ascending, partition_size, upsample: ("computed",)
    try:
        _sh._get_divisions(None, SimpleNamespace(_name=n1), p1, a1, s1, u1)
        _sh._get_divisions(None, SimpleNamespace(_name=n2), p2, a2, s2, u2)
    finally:
        _sh.divisions_lru, _sh._calculate_divisions = saved
    if len(rec.keys) != 2:
        return 2
    same_args = n1 == n2 and p1 == p2 and a1 == a2 and s1 == s2 and u1 == u2
    if rec.keys[0] == rec.keys[1] and not same_args:
        return 2  # two different divisions computations share a cache slot
    return 1 if same_args else 0


HARNESSES.append(dict(module=__name__, fn="divisions_key", props=["C15", "C16", "C19"], tier="quick", timeout=120,
                      bounds="two calls; expression name, npartitions, partition_size, upsample unbounded symbolic ints, ascending symbolic bool",
                      functions=["dask_expr._shuffle._get_divisions (key construction; divisions_lru replaced by a recorder, _calculate_divisions stubbed)"],
                      api_replay="api_divisions_key"))


def api_divisions_key(n1, p1, a1, s1, u1, n2, p2, a2, s2, u2):
    """public API: two set_index calls on one column that differ in the component the key confuses must not share
    divisions computed for the other (observed through the cache after planning both)"""
    import warnings

    import dask
    import numpy as np
    import pandas as pd

    import dask_expr as dx

    warnings.simplefilter("ignore")
    with dask.config.set({"dataframe.convert-string": False, "dataframe.shuffle.method": "tasks"}):
        _sh.divisions_lru.data.clear()
        rng = np.random.default_rng(0)
        pdf = pd.DataFrame({"a": rng.permutation(4000), "b": range(4000)})
        df = dx.from_pandas(pdf, npartitions=8)

        def kw(p, a, s, u):
            out = {}
            if p != p1 or p != p2:
                out["npartitions"] = 2 + abs(int(p)) % 5
            out["upsample"] = 1.0 + (abs(int(u)) % 7) / 2.0
            return out

        k1, k2 = kw(p1, a1, s1, u1), kw(p2, a2, s2, u2)
        if k1 == k2:
            return False, "the two calls do not differ through the public API"
        first = df.set_index("a", **k1).divisions
        second = df.set_index("a", **k2).divisions
        _sh.divisions_lru.data.clear()
        alone = df.set_index("a", **k2).divisions
        return (second != alone), f"set_index('a', **{k2}) after set_index('a', **{k1}) reports divisions {second[:4]}..., alone {alone[:4]}..."


# ---------------------------------------------------------------------------------------------- _get_mem_usages

def mem_usages_key(n1: int, n2: int) -> int:
    """
    pre: True
    """
    saved = (_rp.mem_usages_lru, _rp._compute_mem_usages)
    rec = _Rec()
    _rp.mem_usages_lru = rec
    _rp._compute_mem_usages = lambda frame: ("mem",)
    try:
        _rp._get_mem_usages(SimpleNamespace(_name=n1))
        _rp._get_mem_usages(SimpleNamespace(_name=n2))
    finally:
        _rp.mem_usages_lru, _rp._compute_mem_usages = saved
    if len(rec.keys) != 2:
        return 2
    if rec.keys[0] == rec.keys[1] and n1 != n2:
        return 2
    return 1 if n1 == n2 else 0


HARNESSES.append(dict(module=__name__, fn="mem_usages_key", props=["C15"], tier="quick", timeout=60,
                      bounds="two calls, expression names unbounded symbolic ints",
                      functions=["dask_expr._repartition._get_mem_usages (key construction)"]))


# ---------------------------------------------------------------------------------------------- parquet file identity

def fileinfo_token(path1: int, size1: int, mtime1: int, path2: int, size2: int, mtime2: int) -> int:
    """
    pre: True
    """
    import dask_expr.io.parquet as pq

    t1 = pq._tokenize_fileinfo(SimpleNamespace(path=path1, size=size1, mtime_ns=mtime1))
    t2 = pq._tokenize_fileinfo(SimpleNamespace(path=path2, size=size2, mtime_ns=mtime2))
    same = path1 == path2 and size1 == size2 and mtime1 == mtime2
    if t1 == t2 and not same:
        return 2  # a rewritten file is taken for the old one
    return 1 if same else 0


HARNESSES.append(dict(module=__name__, fn="fileinfo_token", props=["C15", "C18"], tier="quick", timeout=60,
                      bounds="two file infos; path id, size, mtime_ns unbounded symbolic ints",
                      functions=["dask_expr.io.parquet._tokenize_fileinfo (the pre-hash token; the hash itself is assumed injective)"],
                      api_replay="api_fileinfo_token"))


def api_fileinfo_token(path1, size1, mtime1, path2, size2, mtime2):
    """public API: a parquet file rewritten in place (same path; size / mtime as in the counterexample) must be re-read"""
    import os
    import shutil
    import warnings

    import dask
    import pandas as pd

    import dask_expr as dx
    from vf.common import WORK

    if path1 != path2:
        return False, "different paths: not a rewrite in place"
    warnings.simplefilter("ignore")
    d = os.path.join(WORK, "pq_keys")
    shutil.rmtree(d, ignore_errors=True)
    os.makedirs(d)
    with dask.config.set({"dataframe.convert-string": False}):
        def write(lo):
            pdf = pd.DataFrame({"x": range(lo, lo + 100)}, index=pd.Index(range(lo, lo + 100), name="i"))
            dx.from_pandas(pdf, npartitions=1).to_parquet(d, compression=None)

        write(0)
        st = os.stat(os.path.join(d, "part.0.parquet"))
        first = dx.read_parquet(d, filesystem="arrow", calculate_divisions=True)
        div1 = first.divisions
        write(5000)
        if size1 == size2:
            assert os.stat(os.path.join(d, "part.0.parquet")).st_size == st.st_size
        if mtime1 == mtime2:
            os.utime(os.path.join(d, "part.0.parquet"), ns=(st.st_atime_ns, st.st_mtime_ns))
        else:
            os.utime(os.path.join(d, "part.0.parquet"), ns=(st.st_atime_ns, st.st_mtime_ns + 10 ** 9))
        second = dx.read_parquet(d, filesystem="arrow", calculate_divisions=True)
        div2 = second.divisions
        got = second.x.sum().compute()
        shutil.rmtree(d, ignore_errors=True)
        bad = div2 == div1 or got != sum(range(5000, 5100))
        return bad, f"re-read after rewrite in place reports divisions {div2} (before the rewrite {div1}), sum {got}"


# ---------------------------------------------------------------------------------------------- parquet plan cache

_INFO_FIELDS = ("checksum", "filters", "index", "calculate_divisions", "split_row_groups", "blocksize", "aggregation_depth", "columns_kw")


def _dataset_info(v):
    return {
        "checksum": v[0],
        "kwargs": {"filters": v[1], "columns": v[7], "dtype_backend": None},
        "index": v[2],
        "calculate_divisions": v[3],
        "split_row_groups": v[4],
        "blocksize": v[5],
        "aggregation_depth": v[6],
    }


def plan_key(v1: Tuple[int, int, int, int, int, int, int, int], v2: Tuple[int, int, int, int, int, int, int, int]) -> int:
    """
    pre: True
    """
    import dask_expr.io.parquet as pq

    names = ("tokenize", "_cached_plan", "_align_statistics", "_aggregate_row_groups", "apply_filters", "_calculate_divisions")
    saved = {n: getattr(pq, n) for n in names}
    rec = _Rec()
    pq.tokenize = _tok
    pq._cached_plan = rec
    pq._align_statistics = lambda parts, stats: (parts, stats)
    pq._aggregate_row_groups = lambda parts, stats, info: (parts, stats)
    pq.apply_filters = lambda parts, stats, filters: (parts, stats)
    pq._calculate_divisions = lambda stats, info, n: (0, 1)
    try:
        plan = pq.ReadParquetFSSpec.__dict__["_plan"].func
        engine = SimpleNamespace(_construct_collection_plan=lambda info: ([0], [], {}))
        for v in (v1, v2):
            plan(SimpleNamespace(_dataset_info=_dataset_info(v), engine=engine, filters=None, _meta=None))
    finally:
        for n, f in saved.items():
            setattr(pq, n, f)
    if len(rec.keys) != 2:
        return 2
    same = True
    for a, b in zip(v1, v2):
        if a != b:
            same = False
    if rec.keys[0] == rec.keys[1] and not same:
        return 2  # the plan (parts, row filter, statistics, divisions) of another read is reused
    return 1 if same else 0


HARNESSES.append(dict(module=__name__, fn="plan_key", props=["C15", "C18"], tier="quick", timeout=180,
                      bounds="two reads; dataset_info fields " + ", ".join(_INFO_FIELDS) + " as unbounded symbolic ints (ids of their values)",
                      functions=["dask_expr.io.parquet.ReadParquetFSSpec._plan (key construction; tokenize replaced by an injective stand-in, plan construction stubbed)"],
                      api_replay="api_plan_key"))


def api_plan_key(v1, v2):
    """public API (fsspec reader): the same dataset read twice in one process with different filters"""
    import os
    import shutil
    import warnings

    import dask
    import pandas as pd

    import dask_expr as dx
    import dask_expr.io.parquet as pq
    from vf.common import WORK

    warnings.simplefilter("ignore")
    d = os.path.join(WORK, "pq_plan")
    shutil.rmtree(d, ignore_errors=True)
    with dask.config.set({"dataframe.convert-string": False}):
        pdf = pd.DataFrame({"a": range(20), "b": [i % 3 for i in range(20)]})
        dx.from_pandas(pdf, npartitions=4).to_parquet(d)
        pq._cached_plan.clear()
        flt = [("a", ">", 11)]
        one = dx.read_parquet(d, filters=flt)
        n1 = len(one.compute())
        two = dx.read_parquet(d)
        n2 = len(two.compute())
        pq._cached_plan.clear()
        three = dx.read_parquet(d, filters=flt)
        n3 = len(three.compute())
        shutil.rmtree(d, ignore_errors=True)
        bad = n2 != 20 or n1 != n3
        return bad, f"read with filters {flt}: {n1} rows; plain read afterwards: {n2} rows (20 written); filtered read alone: {n3}"


# ---------------------------------------------------------------------------------------------- expression names

def _name_of(cls, module, operands, extra=None):
    import functools

    saved = module._tokenize_deterministic
    module._tokenize_deterministic = _tok
    try:
        e = object.__new__(cls)
        e.operands = list(operands)
        for k, v in (extra or {}).items():
            object.__setattr__(e, k, v)
        prop = None
        for klass in cls.__mro__:
            if "_name" in vars(klass):
                prop = vars(klass)["_name"]
                break
        f = prop.func if isinstance(prop, functools.cached_property) else prop.fget
        return f(e)
    finally:
        module._tokenize_deterministic = saved


def _name_pair(cls, module, ops1, ops2):
    a, b = _name_of(cls, module, ops1), _name_of(cls, module, ops2)
    same = _same(list(ops1), list(ops2))
    if a == b and not same:
        return 2  # two different expressions share a name (singleton table, graph keys, caches keyed by name)
    return 1 if same else 0


def name_fromgraph(l1: int, m1: int, d1: Tuple[int, int, int], k1: int, l2: int, m2: int, d2: Tuple[int, int, int], k2: int) -> int:
    """
    pre: True
    """
    import dask_expr.io.io as io

    return _name_pair(io.FromGraph, io, [l1, m1, d1, k1, "prefix"], [l2, m2, d2, k2, "prefix"])


def name_fromdelayed(m1: int, u1: Tuple[int, int, int], v1: bool, p1: int, x1: int, m2: int, u2: Tuple[int, int, int], v2: bool, p2: int, x2: int) -> int:
    """
    pre: True
    """
    import dask_expr.io._delayed as dl

    return _name_pair(dl.FromDelayed, dl, [m1, u1, v1, p1, "pre", x1], [m2, u2, v2, p2, "pre", x2])


def name_expr(f1: int, c1: Tuple[int, int], f2: int, c2: Tuple[int, int]) -> int:
    """
    pre: True
    """
    import dask_expr._core as core
    import dask_expr._repartition as rp

    return _name_pair(rp.Repartition, core, [f1, c1, None, False, None, None], [f2, c2, None, False, None, None])


def name_blockwise(f1: int, a1: int, b1: int, f2: int, a2: int, b2: int) -> int:
    """
    pre: True
    """
    import dask_expr._expr as ex

    return _name_pair(ex.Clip, ex, [f1, a1, b1, None], [f2, a2, b2, None])


def name_frompandas_divs(f1: int, d1: Tuple[int, int, int], c1: int, p1: int, f2: int, d2: Tuple[int, int, int], c2: int, p2: int) -> int:
    """
    pre: True
    """
    import dask_expr.io.io as io

    return _name_pair(io.FromPandasDivisions, io, [f1, d1, c1, False, p1, False], [f2, d2, c2, False, p2, False])


import dask_expr.io.parquet as _pq


class _RP(_pq.ReadParquetFSSpec):
    _dataset_info = None  # a plain class attribute in place of the property (no dataset behind the harness)


def name_readparquet(c1: int, p1: int, f1: int, k1: int, c2: int, p2: int, f2: int, k2: int) -> int:
    """
    pre: True
    """
    import dask_expr.io.parquet as pq

    def nm(c, p, f, k):
        saved = pq._tokenize_deterministic
        pq._tokenize_deterministic = _tok
        try:
            _RP._dataset_info = {"checksum": c}
            e = object.__new__(_RP)
            e.operands = [p, f, k, "cache-id"]
            return vars(pq.ReadParquet)["_name"].func(e)
        finally:
            pq._tokenize_deterministic = saved

    a, b = nm(c1, p1, f1, k1), nm(c2, p2, f2, k2)
    same = c1 == c2 and p1 == p2 and f1 == f2 and k1 == k2
    if a == b and not same:
        return 2
    return 1 if same else 0


for _fn, _cls, _props in (("name_fromgraph", "dask_expr.io.io.FromGraph._name", ["C17", "C16", "C09"]),
                          ("name_fromdelayed", "dask_expr.io._delayed.FromDelayed._name", ["C17", "C16", "C09"]),
                          ("name_expr", "dask_expr._core.Expr._name (through Repartition)", ["C16", "C09"]),
                          ("name_blockwise", "dask_expr._expr.Blockwise._name (through Clip)", ["C16", "C09"]),
                          ("name_frompandas_divs", "dask_expr.io.io.FromPandasDivisions._name", ["C16", "C09"]),
                          ("name_readparquet", "dask_expr.io.parquet.ReadParquet._name (operands except the cache handle, plus the dataset checksum)", ["C15", "C18", "C16"])):
    HARNESSES.append(dict(module=__name__, fn=_fn, props=_props, tier="quick", timeout=120,
                          bounds="two expressions of the class; every operand an unbounded symbolic int / triple of ints (ids of the operand values); the name prefix is fixed",
                          functions=[_cls + " (the tokenizer replaced by an injective stand-in that keeps its arguments)"]))


# ---- the remaining class-specific name overrides (C08: names identify every operand) -----------------------------------------

def name_mappartitions(f1: int, m1: int, e1: bool, t1: bool, c1: bool, k1: int, x1: int, f2: int, m2: int, e2: bool, t2: bool, c2: bool, k2: int, x2: int) -> int:
    """
    pre: True
    """
    import dask_expr._expr as ex

    return _name_pair(ex.MapPartitions, ex, [f1, len, m1, e1, t1, c1, False, None, None, k1, x1], [f2, len, m2, e2, t2, c2, False, None, None, k2, x2])


def name_fusedio(e1: int, e2: int) -> int:
    """
    pre: True
    """
    import dask_expr.io.io as io

    return _name_pair(io.FusedIO, io, [SimpleNamespace(_funcname="read", ident=e1)], [SimpleNamespace(_funcname="read", ident=e2)])


def name_frommap(i1: Tuple[int, int], a1: int, k1: int, m1: int, d1: Tuple[int, int, int], p1: int, i2: Tuple[int, int], a2: int, k2: int, m2: int, d2: Tuple[int, int, int], p2: int) -> int:
    """
    pre: True
    """
    import dask_expr.io.io as io

    return _name_pair(io.FromMap, io, [len, i1, a1, k1, m1, False, d1, None, p1], [len, i2, a2, k2, m2, False, d2, None, p2])


def name_treereduce(f1: int, k1: int, m1: int, c1: int, a1: int, s1: int, f2: int, k2: int, m2: int, c2: int, a2: int, s2: int) -> int:
    """
    pre: True
    """
    import dask_expr._reductions as red

    return _name_pair(red.TreeReduce, red, [f1, k1, m1, len, len, c1, a1, s1], [f2, k2, m2, len, len, c2, a2, s2])


def name_customreduction(f1: int, m1: int, c1: int, a1: int, b1: int, s1: int, f2: int, m2: int, c2: int, a2: int, b2: int, s2: int) -> int:
    """
    pre: True
    """
    import dask_expr._reductions as red

    return _name_pair(red.CustomReduction, red, [f1, m1, c1, a1, b1, s1, "tok"], [f2, m2, c2, a2, b2, s2, "tok"])


def tokenize_partial(a1: int, b1: int, c1: int, x1: int, a2: int, b2: int, c2: int, x2: int) -> int:
    """
    pre: True
    """
    import dask_expr._util as util

    saved = util._tokenize_deterministic
    util._tokenize_deterministic = _tok
    try:
        def part(a, b, c, x):
            e = SimpleNamespace(operands=[a, b, c, x], _parameters=["frame", "columns", "other"])
            return util._tokenize_partial(e, ["columns"])

        t1, t2 = part(a1, b1, c1, x1), part(a2, b2, c2, x2)
    finally:
        util._tokenize_deterministic = saved
    # everything except the ignored parameter (b) takes part, the variadic tail included
    same = a1 == a2 and c1 == c2 and x1 == x2
    if (t1 == t2) != same:
        return 2
    return 1 if same else 0


for _fn, _cls in (("name_mappartitions", "dask_expr._expr.MapPartitions._name"), ("name_fusedio", "dask_expr.io.io.FusedIO._name"), ("name_frommap", "dask_expr.io.io.FromMap._name"),
                  ("name_treereduce", "dask_expr._reductions.TreeReduce._name"), ("name_customreduction", "dask_expr._reductions.CustomReduction._name"),
                  ("tokenize_partial", "dask_expr._util._tokenize_partial (fusion grouping key: every operand except the ignored parameters)")):
    HARNESSES.append(dict(module=__name__, fn=_fn, props=["C08", "C16", "C09"], tier="quick", timeout=120,
                          bounds="two expressions of the class; every operand an unbounded symbolic int / tuple of ints / bool (ids of the operand values); function operands and prefixes fixed",
                          functions=[_cls + " (the tokenizer replaced by an injective stand-in that keeps its arguments)"]))
for _h in HARNESSES:
    if _h["fn"].startswith("name_") and "C08" not in _h["props"]:
        _h["props"] = _h["props"] + ["C08"]
