"""C16 / C15: the metadata of a received (re-constructed) expression must not depend on the sender's process-global caches."""
from types import SimpleNamespace

import dask_expr._shuffle as _sh
from dask_expr._util import LRU

HARNESSES = []


# ---- C16: metadata of a received expression must not depend on the sender's caches

_STATE = {}


def _setup():
    """a real lowered set_index plan (quantile divisions are computed once, concretely, when the module is imported:
    outside the symbolically traced function)"""
    if _STATE:
        return _STATE
    import warnings

    import dask
    import pandas as pd

    import dask_expr as dx

    warnings.simplefilter("ignore")
    with dask.config.set({"dataframe.convert-string": False, "dataframe.shuffle.method": "tasks"}):
        pdf = pd.DataFrame({"a": [5, 3, 8, 1, 9, 2, 7, 4], "b": range(8)})
        df = dx.from_pandas(pdf, npartitions=3)
        low = df.set_index("a").optimize(fuse=False).expr
        nodes = [e for e in low.walk() if type(e).__name__ == "_SetIndexPost"]
        _STATE["nodes"] = nodes
        _STATE["expected"] = [tuple(e.divisions) for e in nodes]
        _STATE["cache"] = dict(_sh.divisions_lru.data)
    return _STATE


_setup()


def received_setindex_divisions(clear: bool, evictions: int) -> int:
    """
    pre: 0 <= evictions <= 12
    """
    st = _STATE
    if not st["nodes"]:
        return 0
    saved = dict(_sh.divisions_lru.data)
    try:
        # the receiving process: same operands, fresh object, caches in an arbitrary admissible state
        _sh.divisions_lru.data.clear()
        if not clear:
            for k, v in st["cache"].items():
                _sh.divisions_lru[k] = v
            for i in range(evictions):
                _sh.divisions_lru[("unrelated", i)] = None
        for node, want in zip(st["nodes"], st["expected"]):
            fresh = object.__new__(type(node))
            fresh.operands = list(node.operands)
            try:
                got = tuple(fresh._divisions())
            except AssertionError:
                return 2
            if got != want:
                return 2
        return 1
    finally:
        _sh.divisions_lru.data.clear()
        _sh.divisions_lru.data.update(saved)


HARNESSES.append(dict(module=__name__, fn="received_setindex_divisions", props=["C16", "C15"], tier="quick", timeout=300,
                      bounds="cache environment symbolic: emptied, or original content followed by 0..12 unrelated insertions (capacity 10)",
                      functions=["dask_expr._shuffle._SetIndexPost._divisions", "SetPartition._lower (creation site, run once concretely)", "dask_expr._util.LRU"],
                      api_replay="api_received_setindex"))


def api_received_setindex(clear, evictions):
    """public API: pickle the lowered collection, wipe / churn the cache, unpickle, ask for divisions"""
    import pickle
    import warnings

    import dask
    import pandas as pd

    import dask_expr as dx
    from dask_expr._core import Expr

    warnings.simplefilter("ignore")
    with dask.config.set({"dataframe.convert-string": False, "dataframe.shuffle.method": "tasks"}):
        pdf = pd.DataFrame({"a": [15, 13, 18, 11, 19, 12, 17, 14], "b": range(8)})
        low = dx.from_pandas(pdf, npartitions=3).set_index("a").optimize(fuse=False)
        want = low.divisions
        blob = pickle.dumps(low)
        if clear:
            _sh.divisions_lru.data.clear()
        else:
            for i in range(evictions):
                _sh.divisions_lru[("unrelated", i)] = None
        Expr._instances.clear()  # a fresh process has no singleton table
        del low
        try:
            got = pickle.loads(blob).divisions
        except AssertionError as e:
            return True, "unpickled lowered set_index collection raises AssertionError when its divisions are read"
        return (got != want), f"divisions {got} vs {want}"
