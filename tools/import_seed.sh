#!/bin/bash
# tools/import_seed.sh <PROP> <N> <new-seed-name>: take seedN.diff / demoN.py / notesN.md from the sub-agent's scratch worktree /tmp/seedwt/<PROP>,
# confirm in that worktree that the demonstration fails with the patch and passes without it and that the pinned suite still passes, store it as seeded/<name>/
set -u
P=$1; N=$2; NAME=$3
WT=/tmp/seedwt/$P
D=/verif/seeded/$NAME
[ -f $WT/seed$N.diff ] || { echo "no $WT/seed$N.diff"; exit 9; }
git -C $WT checkout -- . ; git -C $WT apply --check $WT/seed$N.diff || { echo "patch does not apply"; exit 9; }
git -C $WT apply $WT/seed$N.diff
( cd $WT && DASK_EXPR_ROOT=$WT timeout 900 /venv/bin/python $WT/demo$N.py >/tmp/seedwt/$NAME.with.log 2>&1 ); w=$?
git -C $WT checkout -- .
( cd $WT && DASK_EXPR_ROOT=$WT timeout 900 /venv/bin/python $WT/demo$N.py >/tmp/seedwt/$NAME.without.log 2>&1 ); wo=$?
echo "$NAME demo with patch: exit $w ; without: exit $wo"
[ $w = 1 ] && [ $wo = 0 ] || { echo "demo does not discriminate"; exit 8; }
/venv/bin/python /verif/tools/seed_suite.py $WT $WT/seed$N.diff || { echo "suite changed"; exit 7; }
mkdir -p $D && cp $WT/seed$N.diff $D/patch.diff && cp $WT/demo$N.py $D/demo.py && cp $WT/notes$N.md $D/notes.md
echo "stored $D"
