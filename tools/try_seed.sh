#!/bin/bash
# tools/try_seed.sh <patch.diff> <ID> [<ID> ...]  : apply a seeded change to /repo, run the quick checks, undo it straight afterwards
set -u
patch=$(readlink -f "$1"); shift
cd /repo || exit 9
if [ -n "$(git status --porcelain --untracked-files=no)" ]; then echo "/repo not clean"; exit 9; fi
git apply "$patch" || { echo "patch does not apply"; exit 9; }
trap 'git -C /repo checkout -- . ' EXIT
cd /verif
for id in "$@"; do
  s=$(date +%s)
  out=$(VERIF_SEED=${VERIF_SEED:-0} ./check "$id" --tier ${TIER:-quick} 2>&1); rc=$?
  e=$(date +%s)
  echo "== $id rc=$rc $((e-s))s : $(echo "$out" | tail -1 | cut -c1-200)"
  echo "$out" | grep -A1 "^VIOLATION" | grep -v "^--" | head -4 | cut -c1-400
  echo "$out" | grep "^HARNESS-ERROR\|^INCONCLUSIVE" | head -2 | cut -c1-300
done
