#!/usr/bin/env python3
"""seed_suite.py <worktree> <patch.diff>: applies the patch in a scratch worktree of /repo, runs the pinned suite there and
compares the passing set with BASELINE.json's stable_pass list (a kept seed must leave it unchanged)."""
import json, os, subprocess, sys, tempfile, xml.etree.ElementTree as ET

wt, patch = sys.argv[1], os.path.abspath(sys.argv[2])
b = json.load(open("/root/.vp/BASELINE.json"))
subprocess.run(["git", "-C", wt, "checkout", "--", "."], check=True)
subprocess.run(["git", "-C", wt, "apply", patch], check=True)
out = tempfile.mktemp(suffix=".junit.xml")
cmd = b["cmd"].replace("<file>", out).replace("cd /repo", f"cd {wt}")
subprocess.run(cmd, shell=True, stdout=subprocess.DEVNULL, stderr=subprocess.DEVNULL)
subprocess.run(["git", "-C", wt, "checkout", "--", "."], check=True)
passed = set()
for tc in ET.parse(out).getroot().iter("testcase"):
    if not any(ch.tag in ("failure", "error", "skipped") for ch in tc):
        passed.add(f"{tc.get('classname')}::{tc.get('name')}")
os.unlink(out)
want = set(b["stable_pass"])
missing = sorted(want - passed)
print(f"{patch}: stable_pass={len(want)} passed_now={len(passed)} missing={len(missing)} {missing[:5]}")
sys.exit(1 if missing else 0)
