#!/usr/bin/env python3
"""Runs /repo's pinned suite and compares the passing set with BASELINE.json's stable_pass list."""
import json, subprocess, sys, xml.etree.ElementTree as ET, os, tempfile
b = json.load(open("/root/.vp/BASELINE.json"))
out = os.path.join(tempfile.gettempdir(), "verif_baseline.junit.xml")
cmd = b["cmd"].replace("<file>", out)
env = dict(os.environ); env.pop("DASK_EXPR_VERIF", None)
subprocess.run(cmd, shell=True, env=env, stdout=subprocess.DEVNULL, stderr=subprocess.DEVNULL)
passed = set()
for tc in ET.parse(out).getroot().iter("testcase"):
    if not any(ch.tag in ("failure", "error", "skipped") for ch in tc):
        passed.add(f"{tc.get('classname')}::{tc.get('name')}")
want = set(b["stable_pass"])
missing = sorted(want - passed)
print(f"stable_pass={len(want)} passed_now={len(passed)} missing={len(missing)}")
for m in missing[:40]:
    print("  NOT PASSING:", m)
os.unlink(out)
sys.exit(1 if missing else 0)
