#!/usr/bin/env python3
"""tools/coverage_gaps.py [--all]

Development aid, not a check: after the quick (or thorough) checks were run with
    VERIF_COV=/verif/.work/cov.rc COVERAGE_CORE=sysmon ./check <ID> ...
this combines the per-process coverage data and lists, per module of /repo/dask_expr, the planner methods
(_simplify_up/_simplify_down/_lower/_layer/_task/_divisions/_meta/_tune_*/operation/chunk/combine/aggregate ...) of which
the engine-P checks executed no line at all, or only part.  It says where a change to the repository could not be noticed
by any P check because the code is never run (CrossHair subprocesses of engine K are not traced; their targets are named in
the harness modules)."""
import ast
import glob
import os
import sys

import coverage

ROOT = "/repo/dask_expr"
DATA = "/verif/.work/cov/.coverage"

cov = coverage.Coverage(data_file=DATA, config_file="/verif/.work/cov.rc")
cov.combine(keep=True)
data = cov.get_data()
show_all = "--all" in sys.argv

tot_f = tot_hit = 0
for path in sorted(glob.glob(ROOT + "/**/*.py", recursive=True)):
    if "/tests/" in path or path.endswith("_version.py"):
        continue
    lines = set(data.lines(path) or [])
    tree = ast.parse(open(path).read())
    rows = []

    def visit(node, prefix):
        for ch in ast.iter_child_nodes(node):
            if isinstance(ch, ast.ClassDef):
                visit(ch, prefix + ch.name + ".")
            elif isinstance(ch, (ast.FunctionDef, ast.AsyncFunctionDef)):
                body = [n.lineno for st in ch.body for n in ast.walk(st) if hasattr(n, "lineno")]
                # skip docstring-only
                body = sorted(set(body))
                if not body:
                    continue
                hit = [l for l in body if l in lines]
                rows.append((prefix + ch.name, len(hit), len(body), ch.lineno))
                visit(ch, prefix + ch.name + ".")

    visit(tree, "")
    miss = [r for r in rows if r[1] == 0]
    part = [r for r in rows if 0 < r[1] < r[2] * 0.6 and r[2] >= 6]
    tot_f += len(rows)
    tot_hit += len(rows) - len(miss)
    rel = os.path.relpath(path, ROOT)
    print(f"== {rel}: {len(rows) - len(miss)}/{len(rows)} functions entered")
    if miss:
        print("   never entered: " + ", ".join(f"{n}:{ln}" for n, _, _, ln in miss if show_all or not n.split('.')[-1].startswith("__")))
    if part:
        print("   under 60% of lines: " + ", ".join(f"{n}({h}/{t})" for n, h, t, _ in part))
print(f"TOTAL functions entered {tot_hit}/{tot_f}")
