#!/usr/bin/env python3
"""Regenerates MANIFEST.json from the table below (kept in one place so it stays valid)."""
import json, os

CLAIMS = {
    "C01": dict(
        category="translation_validation", engine="P",
        technique="symbolic execution of the real optimised and unoptimised task graphs over symbolic tables; z3 decides result equivalence per optimiser stage; counterexamples replayed through real compute",
        text="Translation validation of the real planner: for every program of a bounded family the real optimize_until/lower_completely output of each stage is "
             "executed symbolically (cells, null flags symbolic) and z3 proves it equal to the unoptimised lowered plan for all table contents within the row bound; "
             "planning or task failures that the unoptimised plan does not have are replayed and reported.",
        note="Trusted: symdf models of pandas/dask leaf callables (validated per program against real execution on seeded tables). Bounds: <=5 rows/input, <=3 partitions, "
             "operator depth <=2, integer-valued numerics with NaN; strings/categoricals/datetimes, quantile-based planning, disk/p2p shuffles outside.",
        design="§4 C01",
    ),
    "C02": dict(
        category="translation_validation", engine="P",
        technique="symbolic execution of the real optimised plan over every partition layout vs the same program on the unpartitioned symbolic table; z3 decides equality for all cell and index values",
        text="For each operator family of the statement and every cut of the rows into partitions (all compositions, empty partitions, known divisions with symbolic index labels, "
             "unknown divisions, independent layouts of the two inputs) the real optimised task graph is executed symbolically and proved equal to the reference semantics "
             "(the program applied to the whole symbolic table), or to refuse explicitly; the reference semantics is validated against real pandas per program, counterexamples are "
             "replayed against real pandas and real compute.",
        note="Trusted: symdf's pandas model (validated differentially). Bounds: 4 (quick) / 5 (thorough) rows, 3 rows for the second input. Fixed-size trailing rolling windows, grouped var/std/agg and groupby(dropna=False) "
             "are modelled (missing group label = 2**40, values bounded accordingly). The 'already sorted' decision of sort_values/set_index (_calculate_divisions) runs under CrossHair "
             "with the computed minima/maxima as symbolic environment values. Outside: UDF groupby, time-based rolling, merge_asof, resample, the quantile values themselves, "
             "non-numeric dtypes, float rounding.",
        design="§4 C02",
    ),
    "C03": dict(
        category="translation_validation", engine="P+SMT",
        technique="propositional z3 equivalence of the real predicate rewriter's input/output trees; z3 equivalence of real optimised vs unoptimised plans with a filter above every crossable operator",
        text="(1) All And/Or trees up to 4 (quick) / 5 (thorough) leaves over 4 atoms are pushed through the real rewrite_filters; z3 proves in<=>out for all valuations. "
             "(2) A filter above every operator it may cross (projections, elementwise, assign, rename, astype, to_frame, reset_index incl. predicates on the former index, shuffle, "
             "repartition, set_index(divisions), dropna/drop_duplicates, merges of every how x predicate side x suffix collision x other consumers) is proved to keep exactly the "
             "rows of the unoptimised plan, nulls included.",
        note="Trusted: symdf leaf models (validated per program on seeded tables). Bounds: <=5 rows/input, <=3 partitions. Reader-side filters: see C18.",
        design="§4 C03",
    ),
    "C04": dict(
        category="translation_validation", engine="P",
        technique="z3 equivalence of real optimised vs unoptimised plans for every column selection; widening obligation with free symbolic extra columns",
        text="(a) For every operator followed by ordered / repeated / scalar / list selections and implicit-key consumers the optimised plans of three stages are proved equal to the "
             "unoptimised plan including labels and their order (a task reading a missing or duplicated column is a structural failure). (b) Widening: the same query over sources "
             "carrying two extra never-mentioned columns with free symbolic cells is proved to return the same result.",
        note="Trusted: symdf leaf models. Bounds: <=5 rows/input, <=3 partitions, <=3 selected columns, depth <=1 (quick) / 2 (thorough) before the selection. Session 3: parquet datasets (fsspec / arrow reader, fused reads) as sources of the selection programs; operator forms with mapping arguments, frame conditions, label-indexed reductions, operands with different column sets.",
        design="§4 C04",
    ),
    "C06": dict(
        category="model_checking", engine="K+P",
        technique="CrossHair on the real _divisions/_layer/_task methods with symbolic division values and a tracked row; z3 over symbolic index labels on every node of real plans",
        text="K: Partitions, PartitionsFiltered, Head/Tail, FusedIO, LocSlice and the three repartition planners are executed with symbolic divisions, selections, slice bounds and "
             "a tracked row - reported divisions are sorted, have npartitions+1 entries and contain the row wherever the operator's own tasks place it ('Confirmed over all paths'). "
             "P: for every node of the unoptimised and fused plans of a program family over sources with symbolic index labels, every computed row lies inside the node's reported "
             "divisions for all labels and cell values, and the division tuple is well-formed; row counts answered from metadata (Len / Lengths / size rewrites, unaligned "
             "partners included) equal the computed counts. K also covers the presorted decision behind set_index divisions and parquet partition lengths under a partition selection.",
        note="Divisions asserted by the user (sources, set_index(divisions=)) are assumed; string/datetime divisions, quantile divisions, parquet statistics (C18) outside. "
             "Bounds: tuples of <=5 divisions (K), <=5 rows and <=3 partitions (P). Session 3: lengths of parquet-backed collections (file statistics) under column / partition selections; concat(axis=1) joins and row-reduced operands in the length programs; touching-range concats; one open known finding (len through outer-aligned operands).",
        design="§4 C06",
    ),
    "C05": dict(
        category="model_checking", engine="P",
        technique="symbolic execution of the real fused task graphs over mutable symbolic partitions with an argument-identity oracle around every task call; z3 decides that the forward and the reverse dependency-respecting evaluation orders compute the same partitions; concrete by-products (argument hashing under the real scheduler, source isolation) labelled as such",
        text="Restricted claim: (1) dask-expr's own task functions (assign, _SetIndexPost.operation, AssignPartitioningIndex.operation, Reduction chunk/combine/aggregate, rename operations, "
             "fused sub-graphs, ...) run for real on symbolic containers whose setters work in place like pandas'; a task call after which a data argument is no longer the object it was "
             "is a mutation for every table content (the decision is data-independent), replayed on the real scheduler with hashed arguments before it is reported. (2) The same graph is "
             "evaluated in the forward and in the reverse dependency-respecting order (every pair of consumers of a shared key swaps) and z3 proves the partitions equal for all data. "
             "(3) By-products, concrete: every real task leaves its (hashed) arguments unchanged on the default tables - this observes the purity of the pandas / dask leaf callables that "
             "(1) assumes -, two computes agree, the user's pandas objects are neither changed by a compute nor aliased by the collection.",
        note="Outside the claim: mutation inside pandas C code on inputs other than the default tables, real thread interleavings, the disk shuffle (partd files, barrier), p2p, user functions "
             "other than the fixed non-mutating templates. Explicit-dependency closure of the graphs is C09's claim. Bounds: <=5 rows/input, <=4 partitions, families F05 (shared intermediates), a slice of F01, F14.",
        design="§4 C05 (as built: §11.7)",
    ),
    "C07": dict(
        category="model_checking", engine="P",
        technique="symbolic execution of real plans; labels/names/container kind of every partition compared with the node's _meta (data-independent, path explorer for data-dependent branches)",
        text="For the root of every optimiser stage and every sub-collection of the logical query, every symbolically computed partition carries the container kind, column labels "
             "and order, series and index names its _meta declares, and no stage changes the declared schema of the query (merge indicator / suffix options and concat inputs that agree only up to column order or series name "
             "included). One symbolic run covers all table contents within the row bound.",
        note="dtype kinds are outside the claim (pandas C promotion rules cannot be encoded); internal lowered nodes are not collections and are not checked.",
        design="§4 C07",
    ),
    "C08": dict(
        category="model_checking", engine="K",
        technique="CrossHair on every class-specific name-building method with the tokenizer replaced by an injective stand-in: equal names imply equal operands; concrete by-products for repeatability, one-parameter variations and hash seeds",
        text="Decidable part only: collision-freeness of the name *construction*. For Expr, Blockwise, MapPartitions, FromGraph, FromDelayed, FromMap, FromPandasDivisions, FusedIO, "
             "TreeReduce, CustomReduction, ReadParquet (`_name`) and `_tokenize_partial`, CrossHair decides over all operand values that two expressions get equal names only if every "
             "operand (for ReadParquet: every operand but the cache handle, plus the dataset checksum) is equal. By-products (concrete): one-parameter variations of every operator "
             "template get distinct names and repetitions the same name (logical and optimised), sources differing in one cell get distinct names, plan names and task keys do not "
             "depend on PYTHONHASHSEED.",
        note="ASSUMED: dask.base.tokenize (md5 over pickles / C-level normalisers) is injective and deterministic across processes - digest collisions and cross-process behaviour offer "
             "no symbolic variable. Outside: Fused._name, _DelayedExpr._name, construction-order effects of the singleton table.",
        design="§4 C08 (originally not applicable; the decidable part was claimed after k_keys existed, see §11.2)",
    ),
    "C09": dict(
        category="model_checking", engine="K+P",
        technique="CrossHair on the real multi-key layer generators with symbolic sizes (bounded unrolling of range(n)); exhaustive structural sweeps; structural assertions on every graph the program families materialise",
        text="TreeReduce, CumulativeFinalize, CreateOverlappingPartitions, Lengths, FromGraph, the three repartition layers and FusedIO are executed by CrossHair with symbolic "
             "partition counts / split_every / window sizes / aliases: all outputs defined, every referenced key defined or a dependency key, acyclic, inputs consumed exactly once "
             "in order. TaskShuffle and BroadcastJoin layers (float arithmetic, parameter-derived dict keys) are swept exhaustively over sizes and output subsets. Every graph of "
             "every optimiser stage of the F01/F14/F11 program families (fused sub-graphs recursively, partition-filtered and imported sources) is checked for closure, cycles, "
             "conflicting definitions and embedded planner objects.",
        note="The by-product part is structural (no data, no solver). DiskShuffle / P2P layers and pickling are outside.",
        design="§4 C09",
    ),
    "C10": dict(
        category="translation_validation", engine="P",
        technique="symbolic execution of the real optimised plans of a query at default knobs and at every knob value; z3 decides result equality up to row order",
        text="Over the grid split_every x split_out x max_branch x broadcast x npartitions hints x shuffle npartitions/ignore_index, for reductions, groupby aggregations, "
             "unique/drop_duplicates/value_counts/nunique, shuffles, set_index(divisions) and merges of every how, with 1..9 single-row partitions (so tree vs shuffle reduction, "
             "single-stage vs staged shuffle and broadcast vs hash join are all produced - asserted by the run), the real plan at each knob value is proved to compute the result of the default plan.",
        note="Trusted: symdf leaf models, uninterpreted hash. Outside: shuffle_method='disk' (partd I/O), p2p, upsample/quantile sampling, multi-key groupby split_out tuning. "
             "Nested group reductions bounded to <=5 (quick) / 7 (thorough) partitions.",
        design="§4 C10",
    ),
    "C11": dict(
        category="translation_validation", engine="P+K",
        technique="symbolic execution of the real optimised plans of selected vs unselected collections; z3 decides per-partition equality; selection failures replayed",
        text="For in-memory sources of every kind (from_pandas, from_array, from_map, from_delayed with and without divisions, from_graph) and partitionwise chains with broadcast "
             "operands, single-stage and staged shuffles and broadcast joins, every partition index list (single, reordered, repeated, full, reversed), to_delayed(), "
             "head(n, npartitions=k) and tail(n) is proved to yield exactly the corresponding partitions / rows of the fully computed collection for all table contents, and "
             "never to turn a computable query into an error.",
        note="Trusted: symdf leaf models. Bounds: <=6 rows, <=4 partitions, index lists of length <=3 (+ full, reversed). Real parquet datasets (fsspec and arrow readers, multi-file fused reads) are sources as well: the reader tasks run for real and return tagged cells (plans with reader-side filters are refused); under IO fusion rows are compared in order, not the partition layout. A single-partition source and repartition queries are included. csv / timeseries sources outside.",
        design="§4 C11, §11.8",
    ),
    "C12": dict(
        category="model_checking", engine="P",
        technique="symbolic execution of the real shuffle task graphs with one symbolic optional row per input partition and an uninterpreted hash; z3 decides per-row routing obligations",
        text="Exhaustively over (input partitions, output partitions, max_branch) up to 9x9 (quick) / 13x13 (thorough), methods tasks and simple, ignore_index, column / multi-column / "
             "index keys and subsets of output partitions, the real RearrangeByColumn -> Shuffle -> TaskShuffle/SimpleShuffle graph is executed symbolically; z3 proves every present "
             "row appears exactly once, in exactly the output named by its assigned partition number, with unchanged payload, that the number is a function of the key alone, and that "
             "int and float keys of equal value get the same number in different frames.",
        note="Trusted: hash_object is a function of the float64-cast key value (uninterpreted function), group_split/concat leaf models. Disk and p2p shuffles, string/categorical hashing outside.",
        design="§4 C12",
    ),
    "C14": dict(
        category="translation_validation", engine="P",
        technique="symbolic execution of fused vs unfused real task graphs; z3 decides per-partition sequence equality",
        text="For every partitionwise DAG of a bounded family the fused plan (real optimize_blockwise_fusion, nested Fused._task sub-graphs interpreted as Fused._execute_task does) "
             "is proved equal, partition by partition and in row order, to optimize(fuse=False) for all table contents; npartitions, divisions and meta are compared concretely.",
        note="Trusted: symdf leaf models. Bounds: <=5 rows/input, <=3 partitions, DAG shapes listed in families/f14.py. Session 3: parquet sources (the reader itself is fused over several files before the element-wise chain is).",
        design="§4 C14",
    ),
    "C15": dict(
        category="model_checking", engine="K",
        technique="CrossHair / exhaustive history enumeration on the real memoising functions and the real LRU with an injective stub for the cached computation; symbolic cache environment for set_index divisions",
        text="Decidable part only: cache-key completeness and eviction safety. CrossHair decides that the keys built by the real _get_divisions, _get_mem_usages, "
             "ReadParquetFSSpec._plan, _tokenize_fileinfo and ReadParquet._name are injective in every component the cached value depends on (cache replaced by a non-hashing "
             "recorder, tokenizer by an injective stand-in). _get_divisions, _get_mem_usages and the LRU class run for real over every short history of calls "
             "(arguments / keys, capacities 1..3): each call returns the value of its own key and the cache never exceeds its capacity; the LRU agrees with a reference "
             "least-recently-looked-up model; a set_index result reports the same divisions whatever happened to the divisions cache in between (symbolic eviction count).",
        note="Outside: Expr._instances weak table, garbage collection, injected task failures, parquet plan/statistics caches and dataset rewrites (need real process histories). "
             "Histories <= 3-5 operations; key histories enumerated (symbolic dict keys are beyond CrossHair). Session 3: k_pqstats.pq_metadata_histories - exhaustive ordered pairs / triples of metadata and data questions about one real parquet dataset in one process (shared plan / statistics / dataset-info caches), both readers, against ground truth from the files (no symbolic variable, labelled as a sweep).",
        design="§4 C15",
    ),
    "C16": dict(
        category="model_checking", engine="K+P",
        technique="CrossHair on the real metadata readers of module-level caches with the cache content as symbolic environment; clean-environment pickle round trip of every plan form as by-product",
        text="Decidable part only: metadata must not depend on process-global state. The expression is re-constructed from (type, operands) with the caches emptied or churned "
             "(symbolic) and must report the same divisions without raising. By-product: logical / optimised / lowered forms of a program family (incl. quantile-planned set_index "
             "and sort_values, sources with an unsorted index) are pickled, all module caches and the singleton table are emptied, and the unpickled collection agrees in name, "
             "schema, divisions and result. Name / cache-key injectivity (k_keys) is shared with C15.",
        note="Outside: pickle's byte-level behaviour, _BackendData / FragmentWrapper reduction (C code), a genuinely separate process. Session 3 by-product (concrete): a fresh interpreter with another working directory and hash seed unpickles in-memory, quantile-planned and relative-path parquet collections and must agree in name, divisions, dtypes and result.",
        design="§4 C16",
    ),
    "C17": dict(
        category="translation_validation", engine="P",
        technique="symbolic execution of cut vs uncut real plans (real postpersist rebuild over symbolically computed partitions, real to_delayed/from_delayed and legacy round trips); z3 decides result equality",
        text="For every head node kind (frame, series, index, scalar, unknown divisions, partition-filtered, fused, merged, grouped) x continuation x cut kind, the query continued on "
             "the re-imported collection is proved to compute the result of the uncut query for all table contents; schema and divisions are compared concretely. Cut kinds: persist, "
             "delayed round trip, legacy round trip, and the collection protocol used twice around an in-place modification. CrossHair decides that FromGraph / FromDelayed names "
             "identify every operand (divisions included).",
        note="Trusted: symdf leaf models; the scheduler run inside persist() is replaced by the symbolic executor; distributed outside. Bounds: <=5 rows, <=3 partitions. Session 3: partition selections, tail, cumulative / window / broadcast-join / shuffle continuations on the re-imported collection; the optimised plans' known divisions must be sorted.",
        design="§4 C17",
    ),
    "C18": dict(
        category="model_checking", engine="SMT+K",
        technique="z3 equivalence of the pandas predicate and Arrow's null-aware DNF meaning of the real _DNF output over symbolic cells and null flags; CrossHair / sweeps on statistics and bucket bookkeeping",
        text="Decidable part only. (1) Every And/Or tree over col-op-const atoms (<=2 leaves quick, 3 thorough), combined with user filter lists, goes through the real "
             "_DNF.extract_pq_filters/normalize/combine/to_list_tuple; z3 proves the pushed filter keeps exactly the rows of the pandas predicate, nulls included. "
             "(2) _aggregate_statistics_to_file with symbolic row-group statistics (lengths = sum of row-group rows, min/max aggregation), _divisions_from_statistics over all small "
             "(min,max) configurations incl. overlapping files, FusedIO bucket/divisions/task bookkeeping with symbolic divisions. (3) partition lengths answered from statistics under "
             "a symbolic partition selection (both readers), plan-cache key and file-identity token injectivity.",
        note="The reader (Arrow C++), write/read round trip, filesystem differences and the overwrite guard need files: outside. Counterexample replays do use real parquet files. Session 3: the metadata-history sweep (see C15) and engine-P runs over real parquet sources in C04 / C06 / C11 / C14 exercise the reader's column lists, partition bookkeeping, statistics lengths and fused reads end to end.",
        design="§4 C18",
    ),
    "C19": dict(
        category="model_checking", engine="P+K",
        technique="z3 equivalence of once- vs twice-optimised real plans over symbolic tables; CrossHair on the real fixed-point drivers with a symbolic rewrite table",
        text="Idempotence is decided for all data on a bounded program family (optimize(optimize(q)) == optimize(q), same plan name on repetition); the convergence drivers "
             "Expr.simplify / Expr.lower_completely are executed by CrossHair on stub nodes with an arbitrary symbolic successor table (cycle must be reported, fixpoint must be returned, no spinning). "
             "optimize() is run on every family program, on its own output and with fusion off (a reported non-convergence is a violation); continuations built on an already "
             "optimised head (nested optimize) are proved equal to the uncut query; the divisions cache key is proved injective (plan determinism).",
        note="Termination of the rule system on all programs is outside the claim (needs a ranking argument); bounds: 4 node names in the driver model, F01 family sizes. Session 3: several filters on one join result (rule ping-pong), sampled divisions in the hash-seed by-product.",
        design="§4 C19",
    ),
    "C13": dict(
        category="model_checking", engine="K+T+P",
        technique="symbolic execution of the real repartition planners with CrossHair/z3 (division values, tracked rows symbolic); cvc5 QF_BVFP lemma for the float boundary formula",
        text="Bounded symbolic model checking: RepartitionDivisions._layer, RepartitionToFewer/ToMore planners are executed by CrossHair with symbolic division values "
             "and tracked rows; 'Confirmed over all paths' within tuple-length bounds; counterexamples are replayed through repartition() on real frames.",
        note="Trusted: boundary_slice/concat leaf semantics, truthful sorted input partitions; bounds: division tuples <= 4 (quick) / 5 (thorough) entries; "
             "partition_size= and freq= modes outside the claim.",
        design="§4 C13",
    ),
}
NA = {
}
PENDING = "check not built yet in this session (planned, see DESIGN.md §4); not claimed until its check exists"
ALL = [f"C{i:02d}" for i in range(1, 20)]

def main():
    checks = []
    for pid in ALL:
        if pid not in CLAIMS:
            continue
        c = CLAIMS[pid]
        checks.append({
            "property_id": pid,
            "quick_cmd": f"./check {pid} --tier quick",
            "thorough_cmd": f"./check {pid} --tier thorough",
            "evidence_file": f"/verif/evidence/{pid}.json",
            "replay_cmd_template": f"./check {pid} --replay {{path}}",
            "engine": c["engine"],
            "level_claimed": {"category": c["category"], "text": c["text"], "design_ref": c["design"]},
            "level_note": c["note"],
            "technique": c["technique"],
        })
    na = [{"property_id": p, "reason": NA.get(p, PENDING)} for p in ALL if p not in CLAIMS]
    m = {
        "version": 1,
        "setup_cmd": "./setup.sh",
        "hooks": {
            "guard": "DASK_EXPR_VERIF",
            "enable": "no source hooks: all interception is monkey-patching from /verif at check time; checks import /repo's working tree directly",
            "baseline_off_cmd": "cd /repo && /venv/bin/python -m pytest -ra -q -p no:cacheprovider --timeout=900 --continue-on-collection-errors",
            "source_commits": [],
            "add_only": True,
        },
        "engines": [
            {"name": "K", "path": "kernels/", "serves_properties": ["C02", "C06", "C08", "C09", "C11", "C13", "C15", "C16", "C17", "C18", "C19"],
             "kind_free_text": "CrossHair symbolic execution (z3 per path) of real planner functions with stub self"},
            {"name": "P", "path": "symdf/", "serves_properties": ["C01", "C02", "C03", "C04", "C05", "C06", "C07", "C09", "C10", "C11", "C12", "C13", "C14", "C16", "C17", "C18", "C19"],
             "kind_free_text": "real planner run concretely, real task graph executed over symbolic partitions (z3), equivalence/routing obligations"},
            {"name": "T", "path": "smt/", "serves_properties": ["C13"], "kind_free_text": "AST->SMT-LIB QF_BVFP translation of the float boundary formula, cvc5"},
        ],
        "checks": checks,
        "not_applicable": na,
        "notes": "Exit codes: 0 held, 1 violation (replayed on real code), 2 inconclusive, 3 harness error. See DESIGN.md.",
    }
    with open(os.path.join(os.path.dirname(__file__), "..", "MANIFEST.json"), "w") as f:
        json.dump(m, f, indent=1)

if __name__ == "__main__":
    main()
