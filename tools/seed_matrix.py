#!/usr/bin/env python3
"""tools/seed_matrix.py [seed-name ...]

For every kept seeded change under /verif/seeded: apply patch.diff to /repo, run its demonstration and the quick checks that
are expected to notice it, undo the change (git checkout), run the demonstration again on the clean tree, and record the
outcome in seeded/<name>/meta.json and seeded/RESULTS.md.  Nothing is committed to /repo.  The evidence files that the
checks rewrite while a seed is applied are restored from git afterwards."""
import json
import os
import re
import subprocess
import sys
import time

ROOT = os.path.dirname(os.path.dirname(os.path.abspath(__file__)))
# SEED_REPO=<scratch worktree of /repo at its HEAD>: patches are applied there and the checks import dask_expr from it (PYTHONPATH), so /repo
# itself stays untouched and usable meanwhile; default: /repo itself, as the brief describes
REPO = os.environ.get("SEED_REPO", "/repo")
PYP = "" if REPO == "/repo" else f"PYTHONPATH={REPO} "
SEEDED = os.path.join(ROOT, "seeded")

CHECKS = {
    "C01-seed1": ["C01", "C03"], "C01-seed2": ["C01"],
    "C02-seed1": ["C02", "C06"], "C02-seed2": ["C02", "C10"],
    "C03-seed1": [], "C03-seed2": ["C03"],
    "C04-seed1": ["C04"], "C04-seed2": ["C04"],
    "C06-seed1": ["C06", "C02"], "C06-seed2": ["C06"],
    "C07-seed1": ["C07"], "C07-seed2": ["C07"],
    "C08-seed1": ["C08", "C17"], "C08-seed2": ["C08", "C09"],
    "C09-seed1": ["C09"], "C09-seed2": ["C09"],
    "C10-regress-median": ["C10"], "C10-seed1": ["C10"], "C10-seed2": ["C10"],
    "C11-seed1": ["C11"], "C11-seed2": ["C11"],
    "C12-seed1": ["C12"], "C12-seed2": ["C12"],
    "C13-seed1": ["C13"], "C13-seed2": ["C09", "C13"],
    "C14-seed1": ["C14", "C19"], "C14-seed2": ["C14"],
    "C15-seed1": ["C15"], "C15-seed2": ["C15", "C18"],
    "C16-seed1": ["C16", "C15"], "C16-seed2": ["C16"],
    "C17-seed1": ["C17"], "C17-seed2": ["C17"],
    "C18-seed1": ["C18", "C15"], "C18-seed2": ["C18"],
    "C19-seed1": ["C19", "C03"], "C19-seed2": ["C19", "C15"],
    "C01-seed3": ["C01", "C06"], "C01-seed4": ["C11"], "C07-seed3": ["C07"], "C07-seed4": ["C07", "C02", "C01"], "C09-seed3": ["C09"], "C09-seed4": ["C09", "C11"],
    "C15-seed3": ["C15", "C16"], "C15-seed4": ["C15"], "C19-seed3": ["C19"], "C19-seed4": ["C19", "C08"],
    "C14-seed3": ["C14", "C19"], "C14-seed4": ["C14", "C19"], "C16-seed3": ["C16"], "C16-seed4": ["C16"],
    "C02-seed5": ["C02", "C06"], "C02-seed6": ["C10"], "C05-seed1": ["C05"], "C05-seed2": ["C05"], "C06-seed5": ["C06"], "C06-seed6": ["C06"],
    "C10-seed5": ["C10"], "C10-seed6": ["C10", "C06", "C02"], "C11-seed5": ["C11", "C08", "C17"], "C11-seed6": ["C11", "C10", "C02"], "C12-seed5": ["C12", "C10"], "C12-seed6": ["C10"],
    "C13-seed5": ["C13", "C09"], "C13-seed6": ["C13"], "C18-seed3": ["C18", "C11", "C04"], "C18-seed4": ["C18", "C15"],
    "C17-seed3": ["C17", "C06", "C11"], "C17-seed4": ["C17", "C08", "C11"],
    "C03-seed3": ["C03", "C18"], "C13-seed3": ["C13", "C09"], "C10-seed3": ["C10", "C12"], "C12-seed3": ["C12", "C10"], "C12-seed4": ["C12", "C09"],
}

NOTES = {
    "C03-seed1": "superseded: the legality test it relaxes was rewritten by fix 3ff2ec5 (merge filter join-side legality with suffixes), found while this seed was examined; the patch no longer applies and the hole it opened no longer exists",
    "C10-regress-median": "not produced by a sub-agent: the reverse of fix 418f4ec (groupby median with split_every larger than the partition count), kept as a regression seed",
}


def sh(cmd, **kw):
    return subprocess.run(cmd, shell=True, capture_output=True, text=True, **kw)


def needs(notes):
    out = []
    for line in notes.splitlines():
        l = line.strip(" -*")
        if re.match(r"(?i)(\*\*)?(trigger|needs|need)", l):
            out.append(l)
    return " ".join(out)[:900] or " ".join(notes.splitlines()[1:6])[:900]


def demo(path):
    r = sh(f"cd {REPO} && DASK_EXPR_ROOT={REPO} timeout 900 /venv/bin/python {path}")
    return r.returncode


def main():
    names = sys.argv[1:] or sorted(d for d in os.listdir(SEEDED) if os.path.isdir(os.path.join(SEEDED, d)))
    if sh(f"git -C {REPO} status --porcelain --untracked-files=no").stdout.strip():
        print("/repo not clean")
        return 9
    head = sh(f"git -C {REPO} rev-parse --short HEAD").stdout.strip()
    rows = []
    for name in names:
        d = os.path.join(SEEDED, name)
        patch = os.path.join(d, "patch.diff")
        notes = open(os.path.join(d, "notes.md")).read() if os.path.exists(os.path.join(d, "notes.md")) else ""
        meta = {"seed": name, "property": name.split("-")[0], "patch": "patch.diff", "demonstration": "demo.py" if os.path.exists(os.path.join(d, "demo.py")) else None,
                "what_it_needs_to_manifest": needs(notes), "repo_head": head, "checks_run": {}, "note": NOTES.get(name, "")}
        applies = sh(f"git -C {REPO} apply --check {patch}").returncode == 0
        meta["applies_to_repo_head"] = applies
        checks = CHECKS[name] if name in CHECKS else [name.split("-")[0]]
        if not applies or not checks:
            meta["status"] = "superseded" if not applies else "not run"
            json.dump(meta, open(os.path.join(d, "meta.json"), "w"), indent=1)
            rows.append((name, "-", "-", meta["status"], meta["note"][:120]))
            continue
        sh(f"git -C {REPO} apply {patch}")
        try:
            if meta["demonstration"]:
                meta["demo_exit_with_patch"] = demo(os.path.join(d, "demo.py"))
            for cid in checks:
                t0 = time.time()
                r = sh(f"cd {ROOT} && {PYP}VERIF_EVIDENCE_DIR={ROOT}/.work/evidence-matrix VERIF_SEED=0 ./check {cid} --tier quick")
                viol = [l for l in r.stdout.splitlines() if l.startswith("VIOLATION")]
                first = ""
                lines = r.stdout.splitlines()
                for i, l in enumerate(lines):
                    if l.startswith("VIOLATION") and i + 1 < len(lines):
                        first = lines[i + 1].strip()[:300]
                        break
                meta["checks_run"][cid] = {"exit": r.returncode, "violations": len(viol), "first_violation": first, "summary": (lines[-1] if lines else "")[:200], "wall_s": round(time.time() - t0, 1)}
        finally:
            sh(f"git -C {REPO} checkout -- .")
        if meta["demonstration"]:
            meta["demo_exit_without_patch"] = demo(os.path.join(d, "demo.py"))
        caught = [c for c, v in meta["checks_run"].items() if v["exit"] == 1 and v["violations"] > 0]
        meta["caught_by"] = caught
        meta["status"] = "caught" if caught else "missed"
        json.dump(meta, open(os.path.join(d, "meta.json"), "w"), indent=1)
        rows.append((name, f"{meta.get('demo_exit_with_patch')}/{meta.get('demo_exit_without_patch')}", ",".join(checks), ",".join(caught) or "MISSED",
                     (meta["checks_run"][caught[0]]["first_violation"] if caught else "")[:140]))
        print(rows[-1], flush=True)
    if not sys.argv[1:]:
        with open(os.path.join(SEEDED, "RESULTS.md"), "w") as f:
            f.write(f"# Seeded changes against the quick checks (repo HEAD {head})\n\n| seed | demo exit with/without patch | checks run | caught by | first violation line |\n|---|---|---|---|---|\n")
            for r in rows:
                f.write("| " + " | ".join(str(x).replace("|", "/") for x in r) + " |\n")
    return 0


if __name__ == "__main__":
    sys.exit(main())
