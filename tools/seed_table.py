#!/usr/bin/env python3
"""tools/seed_table.py: writes seeded/RESULTS.md from the meta.json files the seed matrix left behind (one row per kept seeded change)."""
import json, os, glob
ROOT = os.path.dirname(os.path.dirname(os.path.abspath(__file__)))
rows = []
for d in sorted(glob.glob(os.path.join(ROOT, "seeded", "*", ""))):
    name = os.path.basename(os.path.dirname(d))
    mp = os.path.join(d, "meta.json")
    if not os.path.exists(mp):
        rows.append((name, "-", "-", "-", "not run", ""))
        continue
    m = json.load(open(mp))
    notes = os.path.join(d, "notes.md")
    title = open(notes).readline().strip("# \n") if os.path.exists(notes) else ""
    caught = ",".join(m.get("caught_by", [])) or m.get("status", "?")
    first = ""
    for c in m.get("caught_by", []):
        first = m["checks_run"][c].get("first_violation", "")[:110]
        break
    rows.append((name, title[:100], f"{m.get('demo_exit_with_patch')}/{m.get('demo_exit_without_patch')}", ",".join(m.get("checks_run", {})), caught, first, m.get("repo_head", "")))
with open(os.path.join(ROOT, "seeded", "RESULTS.md"), "w") as f:
    f.write("# Seeded changes against the quick checks\n\nOne row per kept change: demo exit with / without the patch, the checks that were run with the patch applied, which of them reported a VIOLATION, the first violation line, and the /repo commit the run was made at.\n\n")
    f.write("| seed | change | demo | checks run | caught by | first violation | repo head |\n|---|---|---|---|---|---|---|\n")
    for r in rows:
        f.write("| " + " | ".join(str(x).replace("|", "/").replace("\n", " ") for x in r) + " |\n")
    n = len(rows); c = sum(1 for r in rows if r[4] not in ("missed", "superseded", "not run", "?", "MISSED"))
    f.write(f"\n{c} of {n} kept changes are reported by at least one quick check (superseded: the code the change patched no longer exists).\n")
print(len(rows))
